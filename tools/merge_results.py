#!/usr/bin/env python3
"""Joins the partial tables written by several `selftest/run_seeded.py --only .. --out ..` instances into selftest/RESULTS.md.
usage: tools/merge_results.py part1.md part2.md ..."""
import re, sys
rows, head = [], None
for f in sys.argv[1:]:
    lines = open(f).read().splitlines()
    if head is None:
        head = lines[:6]
    rows += [l for l in lines[6:] if l.startswith("| C")]
order = "mrstxyzwvF"
def key(l):
    c = [x.strip() for x in l.split("|")]
    return (order.index(c[2][0]) if c[2][0] in order else 99, c[1], c[2])
rows.sort(key=key)
det = sum(1 for l in rows if "| detected |" in l)
open("selftest/RESULTS.md", "w").write("\n".join(head + rows) + "\n\n%d of %d detected.\n" % (det, len(rows)))
print("%d of %d detected" % (det, len(rows)))
