#!/bin/bash
# Reach audit (DESIGN §8): line coverage of strum_macros/src reached by the quick-tier corpora of all checks.
# Reporting only.  usage: tools/coverage.sh [tier] [ids...]
cd "$(dirname "$0")/.."
tier=${1:-quick}; shift
ids=${@:-C01 C02 C03 C04 C05 C06 C07 C08 C09 C10 C11 C12 C13 C14 C15 C16 C17 C18 C19 C20}
export VERIF_COVERAGE=1 VERIF_NO_EVIDENCE=1
rm -rf target/coverage; mkdir -p target/coverage
for id in $ids; do ./check $id --tier $tier 2>&1 | grep -E "^\[C|VIOLATION|INCONCL" | tail -1; done
BIN=$(ls -d ~/.rustup/toolchains/nightly-x86_64-unknown-linux-gnu/lib/rustlib/x86_64-unknown-linux-gnu/bin)
ls target/coverage/*.profraw | head -2000 > target/coverage/list.txt
echo "profiles: $(wc -l < target/coverage/list.txt)"
$BIN/llvm-profdata merge -sparse -f target/coverage/list.txt -o target/coverage/all.profdata 2>&1 | tail -3
objs=""
for so in target/repo_cov/*/t/debug/deps/libstrum_macros-*.so; do objs="$objs --object $so"; done
$BIN/llvm-cov report $objs --instr-profile=target/coverage/all.profdata --ignore-filename-regex='registry|rustc|library/' 2>&1 | tee coverage_report.txt | tail -30
$BIN/llvm-cov show $objs --instr-profile=target/coverage/all.profdata --ignore-filename-regex='registry|rustc|library/' --show-line-counts-or-regions 2>/dev/null > target/coverage/show.txt
