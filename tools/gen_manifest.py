#!/usr/bin/env python3
"""Regenerates /verif/MANIFEST.json from the table below (kept in one place so it stays valid)."""
import json, os, sys
HERE = os.path.dirname(os.path.dirname(os.path.abspath(__file__)))
props = [json.loads(l) for l in open(os.path.join(HERE, "properties.jsonl"))]

CLAIMED = {
    "C01": ("runtime monitor: generated enum corpus x hostile input classes, lock-step reference parser (Rust twin + python re-check)",
            "Hundreds to thousands of generated EnumString enums over the whole attribute space, each driven with 1-3k inputs (declared spellings, all/sampled case flips, one-edit neighbours, padded, disabled/default names, re-cased identifiers, look-alikes, random, 4 KiB); every from_str and try_from result (variant, payload, error) is compared with an independent reference parser; sampled events are re-checked by a second python implementation.",
            "Not exhaustive over programs/strings; trusts std derives and the generator's rendering; spelling non-overlap is enforced by the generator."),
    "C02": ("runtime monitor: print->parse round trip on generated enums, expected values built by the generator",
            "Grid over none+16 styles x derive sets x attribute shapes plus seeded random enums (incl. use_phf ones): for every enabled non-default variant and several payloads, parsing what Display/AsRefStr/IntoStaticStr print and every get_serializations() string must return the variant with default payload; serializations compared as a set with the model.",
            "Not exhaustive over programs; std derives trusted."),
    "C03": ("runtime monitor: every string-producing derive vs canonical-name model, twin renderings for conflicting derives",
            "Systematic grid (longest serialize literal in every position, prefix none/empty/ASCII/non-ASCII, none+16 styles, const_into_str on/off) plus seeded enums, each rendered with Display+AsRefStr+IntoStaticStr+VariantNames and with deprecated ToString+AsStaticStr+EnumVariantNames; every printer on every sample value, VARIANTS[i], and const into_str() in a const item must equal the model's canonical name.",
            "Literal sets with ambiguous 'longest' (bytes vs chars, ties) are excluded because the property does not pin them."),
    "C04": ("runtime monitor: generated enum corpus, list oracle vs reference model",
            "Every generated enum (all disabled masks up to n=6/7, all variant kinds, type/const generics, seeded random enums up to 300 variants) is compiled against the current tree and its iterator observed; collect, rev, next_back loop, COUNT, count() and len() are each compared with the model list built by the generator.",
            "Trusts std derives for Debug/PartialEq and the generator's rendering; not exhaustive over programs."),
    "C05": ("runtime monitor: exhaustive bounded call histories in lock-step with std::vec::IntoIter, debug+release",
            "All call sequences over {next,next_back,clone,nth(k),nth_back(k)} incl. k=usize::MAX up to depth 3-5 for N=0..8 (with/without disabled variants), every call compared (item, len, size_hint, no panic, fused) with vec::IntoIter in debug and release builds; seeded random walks; skip/step_by/rev/take adapters; Send+Sync observed at the compiler boundary.",
            "Bounded depth; vec::IntoIter trusted as the reference; Send/Sync part is a compile-outcome observation."),
    "C06": ("runtime monitor: exhaustive discriminant sweep for 8/16-bit reprs, boundary+random sweep for wider ones, model cross-checked against rustc ground truth",
            "Enums over all 11 repr choices with explicit (negative, hex, arithmetic, shift, bit-op, named-constant, MIN/MAX) and implicit discriminants, every disabled placement, all kinds and generics: from_repr(d) for every d of u8/i8/u16/i16 and boundary/random d for wider types is compared with the model of rustc's numbering, itself checked against `v as R` / tag reads on every run; parameter type and const evaluation observed at the compiler boundary.",
            "No-repr enums use only untyped literal discriminant expressions; wider reprs are sampled, not exhausted."),
    "C07": ("runtime monitor: exhaustive identifier enumeration x all style strings, model conversion vs six derives",
            "Every identifier up to length 4 (quick) / 5 (thorough) over {a,b,A,B,1,_} plus a dictionary (acronyms, digits, underscores, non-ASCII) under none+16 style strings, bucketed into collision-free enums deriving VariantNames, Display, AsRefStr, IntoStaticStr, EnumString, EnumMessage; names, parse of expected/raw/other-style spellings and case-insensitive variants are compared with the model.",
            "The model's word segmentation restates the documented rule (digits inherit the case class of the preceding letter)."),
    "C08": ("runtime monitor: four list-describing derives vs model lists and against each other position-wise",
            "All disabled masks up to n=5/7 plus seeded enums (generics, explicit discriminants, naming attributes, duplicate canonical names): COUNT, iter(), VariantNames::VARIANTS, VariantArray::VARIANTS vs model lists, and without disabled variants VARIANTS[i]==iter().nth(i) and names[i]==VARIANTS[i].to_string()/as_ref().",
            "Not exhaustive over programs."),
    "C09": ("runtime monitor: generated enums in a private module, discriminant conversions vs model and rustc ground truth, compile-outcome probes for visibility",
            "Seeded enums over kinds, generics/lifetimes/where-clauses, reprs (incl. align), explicit discriminants on unit and data variants, name/vis/derive/pass-through attributes: From<&E>, From<E>, discriminant(), `d as R` for default and non-default payloads; requested derives exercised (EnumIter list, Display/AsRefStr/VariantNames/EnumString under passed-through style, Hash, Ord); size/align mirror repr; nameability from the parent module; four compile-fail visibility probes.",
            "Visibility restrictions are observed through compile outcomes."),
    "C10": ("runtime monitor: exhaustive write histories against an array model, all Option/Result masks",
            "Field-less enums with every disabled mask (n<=5/6) plus seeded larger ones: all write sequences to depth 2-4 over all keys x 2 unique values with whole-table comparison and clone-independence after every write, random walks, new/filled/from_closure (call log)/transform, all() and all_ok() over ALL 2^n masks with distinct error ids, panics on disabled keys leave the table unchanged.",
            "Bounded history depth; Vec<u64> model trusted."),
    "C11": ("runtime monitor: reference parser decides unclaimed inputs; capture, print round trip and format-spec grid vs the inner value",
            "Default-variant enums (tuple/named, String/Box<str>/newtype) among ordinary and case-insensitive variants driven with C01's hostile inputs: captured value == input, to_string() == input, format grid equals the grid on the input; transparent enums over 9 inner types: format!(spec, v) == format!(spec, inner) for ~2.5k specs incl. flags, as_ref / <&'static str>::from equal the inner's.",
            "std formatting of the inner value is the reference."),
    "C12": ("runtime monitor: exhaustive 2^k case-flip and Unicode look-alike inputs against a hand-written ASCII-fold reference parser",
            "Systematic grid {enum flag} x {variant flag absent/bare/=true/=false} x spelling classes (ASCII, non-ASCII, Kelvin/long-s/dotless-i/sharp-s) plus seeded random enums; all 2^k flips (k<=10 quick, 12 thorough) of every spelling, look-alike substitutions and Unicode case mappings are parsed and compared with the reference parser.",
            "Flip sets are exhaustive only up to k letters per spelling; look-alike table is finite; inputs claimed by two variants of an overlapping pair are not judged."),
    "C13": ("runtime monitor: every sample value against every generated method, names from the model's snakify",
            "Seeded enums over kinds, 0..3 tuple fields (distinct and repeated types), generics/lifetimes/where-clauses with associated types, identifiers with several digit runs, disabled variants at every position: is_* partition, try_as_*/_ref/_mut Some exactly for the own variant with fields in order (Debug compare with the constructed payload), writes through &mut re-read.",
            "Debug rendering is the observation channel for payloads."),
    "C14": ("runtime monitor: four getters on every variant value vs model texts",
            "Systematic grid (0..4 doc attributes in ///, #[doc], /** */ forms x message/detailed presence x disabled position x kinds) plus seeded enums with hostile texts, prefix and styles: get_message, get_detailed_message, get_documentation, get_serializations compared with the model for every variant incl. disabled ones.",
            "Assumes rustc's doc-comment desugaring."),
    "C15": ("runtime monitor: all declared keys and variations through three getters vs model maps",
            "Seeded enums with 0..6 props in 1..3 groups, keys shared across variants and value types, keyword keys, disabled variants with props, extreme ints: every declared key plus case/prefix/suffix variations, empty and random keys through get_str/get_int/get_bool on every value of every variant.",
            "Not exhaustive over key strings."),
    "C16": ("runtime monitor: plain/use_phf twins, both against the same reference parser on the same inputs; compile outcome of the twin",
            "Field-less enums (C12 grid + seeded; lower/upper/caseless/non-ASCII/empty spellings, both case-insensitivity levels, disabled, fold-equal aliases, optional default variant) rendered with and without use_phf against strum built with the phf feature: the phf twin must compile and both parsers must agree with the reference parser on every input.",
            "Equality of both twins with one model implies equality with each other; on enums with deliberately overlapping spellings only inputs claimed by exactly one variant are judged."),
    "C17": ("runtime monitor: format-spec grid vs std's own str formatting; placeholder literals vs generator-emitted format!",
            "Fixed names of unit/tuple/named variants (multi-byte names, prefix, styles, field names incl. f) under fill x align x width 0..16 x precision none/0..8 plus sign/#/0 flags (~2.5k specs per value) compared with format!(spec, canonical str); placeholder variants (all field orders, subsets, repeats, nested specs, escaped braces, extreme payloads) compared with format!(literal, fields..).",
            "std formatting is the reference by definition of the property."),
    "C18": ("runtime monitor: logging user error function + reference parser; error value and call log checked per input",
            "Random enums without default variant with custom error types (plain, module path, generic, boxed dyn Error) and a control group; for every input the Err value must equal f(s) for the exact input and the function's call log must be [s] on rejection and empty on acceptance; includes use_phf enums; associated error types checked by annotation.",
            "Call log is thread-local inside the corpus's own function; not exhaustive over inputs."),
    "C19": ("compile-outcome monitor: differential compilation of generated programs under no_std / renamed crate / shadowed core+std",
            "Three enum families covering all 15 non-deprecated derives and their attribute-dependent template arms are compiled under the std baseline, #![no_std] without alloc (strum with default features off), strum reachable only as a renamed extern (direct and nested re-export path) and with local core/std/alloc modules; whatever compiles under the baseline must compile everywhere; the renamed configuration is sanity-checked to really reject a hard-coded ::strum.",
            "rustc name resolution is the judge; observations are compile outcomes (E-macro executions), nothing is run."),
    "C20": ("compile-outcome monitor: rule x derive matrix of malformed items, diagnostics attributed per item",
            "Every rejection rule instantiated on every derive it applies to (must-reject) and on all other derives (panic oracle), several positions/forms each: batches of 60 items, diagnostics grouped per item by primary span; no derive panic/ICE anywhere; every must-reject item needs an error inside the item, else it is recompiled alone and a clean compile is 'silently accepted'.",
            "rustc's JSON diagnostics (level, message, primary span) are the observation channel."),
}

def main():
    checks = []
    na = []
    for p in props:
        pid = p["id"]
        if pid in CLAIMED and os.path.exists(os.path.join(HERE, "vf", "props", pid.lower() + ".py")):
            tech, text, note = CLAIMED[pid]
            ref = "DESIGN.md §7 %s" % pid
            checks.append({
                "property_id": pid,
                "quick_cmd": "./check %s --tier quick" % pid,
                "thorough_cmd": "./check %s --tier thorough" % pid,
                "evidence_file": "/verif/evidence/%s.json" % pid,
                "replay_cmd_template": "./check %s --replay {path}" % pid,
                "engine": "vf+vmon",
                "level_claimed": {"category": "exploration", "text": text, "design_ref": ref},
                "level_note": note,
                "technique": tech,
            })
        else:
            na.append({"property_id": pid, "reason": "check under construction in this round; not claimed yet"})
    man = {
        "version": 1,
        "setup_cmd": "./setup.sh",
        "hooks": {
            "guard": "none (no source hooks: all observations are taken at public API / compiler boundaries)",
            "enable": "n/a - checks build /repo's strum and strum_macros unmodified via cargo into /verif/target and compile generated corpora against them with direct rustc",
            "baseline_off_cmd": "cd /repo && cargo test --workspace --no-fail-fast --offline",
            "source_commits": [],
            "add_only": True,
        },
        "engines": [
            {"name": "vf+vmon", "path": "/verif/vf, /verif/vmon",
             "serves_properties": [c["property_id"] for c in checks],
             "kind_free_text": "python corpus/model generator + direct-rustc shard builder + Rust runtime monitor library (lock-step reference models, event log, offline merge)"},
        ],
        "checks": checks,
        "notes": "Runtime monitoring family. exit 0 held / 1 VIOLATION / 2 INCONCLUSIVE (infrastructure, never a verdict). All corpora include unrelated (noise) attributes, shuffled attribute order, raw identifiers, macro_rules-declared enums, defaulted/where-clause generics; 216 seeded changes + 9 reverted fixes are listed with the catching check in selftest/RESULTS.md. See DESIGN.md.",
        "not_applicable": na,
    }
    json.dump(man, open(os.path.join(HERE, "MANIFEST.json"), "w"), indent=1)
    print("claimed:", [c["property_id"] for c in checks])

main()
