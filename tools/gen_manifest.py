#!/usr/bin/env python3
"""Regenerates /verif/MANIFEST.json from the table below (kept in one place so it stays valid)."""
import json, os, sys
HERE = os.path.dirname(os.path.dirname(os.path.abspath(__file__)))
props = [json.loads(l) for l in open(os.path.join(HERE, "properties.jsonl"))]

CLAIMED = {
    "C01": ("runtime monitor: generated enum corpus x hostile input classes, lock-step reference parser (Rust twin + python re-check)",
            "Hundreds to thousands of generated EnumString enums over the whole attribute space, each driven with 1-3k inputs "
            "(declared spellings, all/sampled case flips, one-edit neighbours, padded, disabled/default names, re-cased "
            "identifiers, look-alikes, random, 4 KiB); every from_str and try_from result (variant, payload, error) is compared "
            "with an independent reference parser; sampled events are re-checked by a second python implementation.",
            "Not exhaustive over programs/strings; trusts std derives and the generator's rendering; spelling non-overlap is checked by the generator.",
            "DESIGN.md §7 C01"),
    "C12": ("runtime monitor: exhaustive 2^k case-flip and Unicode look-alike inputs against a hand-written ASCII-fold reference parser",
            "Systematic grid {enum flag} x {variant flag absent/bare/=true/=false} x spelling classes (ASCII, non-ASCII, Kelvin/long-s/"
            "dotless-i/sharp-s) plus seeded random enums; all 2^k flips (k<=10 quick, 12 thorough) of every spelling, look-alike "
            "substitutions and Unicode case mappings are parsed and compared with the reference parser.",
            "Flip sets are exhaustive only up to k letters per spelling; look-alike table is finite.",
            "DESIGN.md §7 C12"),
    "C18": ("runtime monitor: logging user error function + reference parser; error value and call log checked per input",
            "Random enums without default variant with custom error types (plain, module path, generic, boxed dyn Error) and a "
            "control group; for every input the Err value must equal f(s) for the exact input and the function's call log must "
            "be [s] on rejection and empty on acceptance; includes use_phf enums; associated error types checked by annotation.",
            "Call log is thread-local inside the corpus's own function; not exhaustive over inputs.",
            "DESIGN.md §7 C18"),
    # id: (technique, level text, level note, design_ref)
    "C04": ("runtime monitor: generated enum corpus, list oracle vs reference model",
            "Every generated enum (all disabled masks up to n=6/7, all variant kinds, type/const generics, seeded random "
            "enums up to 300 variants) is compiled against the current tree and its iterator is observed; collect, rev, "
            "next_back loop, COUNT, count() and len() are each compared with the model list built by the generator.",
            "Trusts rustc/std derives for Debug/PartialEq and the generator's rendering; not exhaustive over programs.",
            "DESIGN.md §7 C04"),
    "C05": ("runtime monitor: exhaustive bounded call histories in lock-step with std::vec::IntoIter, debug+release",
            "All call sequences over {next,next_back,clone,nth(k),nth_back(k)} incl. k=usize::MAX up to depth 3-5 for "
            "N=0..8 (with/without disabled variants), every call compared (item, len, size_hint, no panic, fused) with "
            "vec::IntoIter in debug and release builds; adapter probes; Send+Sync observed at the compiler boundary.",
            "Bounded depth; vec::IntoIter trusted as the reference; Send/Sync part is a compile-outcome observation.",
            "DESIGN.md §7 C05"),
}

def main():
    checks = []
    na = []
    for p in props:
        pid = p["id"]
        if pid in CLAIMED and os.path.exists(os.path.join(HERE, "vf", "props", pid.lower() + ".py")):
            tech, text, note, ref = CLAIMED[pid]
            checks.append({
                "property_id": pid,
                "quick_cmd": "./check %s --tier quick" % pid,
                "thorough_cmd": "./check %s --tier thorough" % pid,
                "evidence_file": "/verif/evidence/%s.json" % pid,
                "replay_cmd_template": "./check %s --replay {path}" % pid,
                "engine": "vf+vmon",
                "level_claimed": {"category": "exploration", "text": text, "design_ref": ref},
                "level_note": note,
                "technique": tech,
            })
        else:
            na.append({"property_id": pid, "reason": "check under construction in this round; not claimed yet"})
    man = {
        "version": 1,
        "setup_cmd": "./setup.sh",
        "hooks": {
            "guard": "none (no source hooks: all observations are taken at public API / compiler boundaries)",
            "enable": "n/a - checks build /repo's strum and strum_macros unmodified via cargo into /verif/target and compile generated corpora against them with direct rustc",
            "baseline_off_cmd": "cd /repo && cargo test --workspace --no-fail-fast --offline",
            "source_commits": [],
            "add_only": True,
        },
        "engines": [
            {"name": "vf+vmon", "path": "/verif/vf, /verif/vmon",
             "serves_properties": [c["property_id"] for c in checks],
             "kind_free_text": "python corpus/model generator + direct-rustc shard builder + Rust runtime monitor library (lock-step reference models, event log, offline merge)"},
        ],
        "checks": checks,
        "notes": "Runtime monitoring family. exit 0 held / 1 VIOLATION / 2 INCONCLUSIVE (infrastructure, never a verdict). See DESIGN.md.",
        "not_applicable": na,
    }
    json.dump(man, open(os.path.join(HERE, "MANIFEST.json"), "w"), indent=1)
    print("claimed:", [c["property_id"] for c in checks])

main()
