#!/bin/bash
# runs all checks at several seeds (evidence writing disabled) and reports anything that is not exit 0
cd "$(dirname "$0")/.."
tier=${1:-quick}; shift
seeds=${@:-1 2 3 4 5}
export VERIF_NO_EVIDENCE=1
for sd in $seeds; do
  for i in 01 02 03 04 05 06 07 08 09 10 11 12 13 14 15 16 17 18 19 20; do
    out=$(VERIF_SEED=$sd ./check C$i --tier $tier 2>&1); rc=$?
    if [ $rc -ne 0 ]; then echo "seed=$sd C$i rc=$rc"; echo "$out" | grep -E "^VIOLATION|what:|INCONCLUSIVE" | head -6 | cut -c1-400; fi
  done
  echo "seed $sd done"
done
