#!/bin/bash
# runs every check once (tier $1, default quick) on /repo's current tree and prints one line per property
cd "$(dirname "$0")/.."
tier=${1:-quick}
rc_all=0
for i in 01 02 03 04 05 06 07 08 09 10 11 12 13 14 15 16 17 18 19 20; do
  out=$(./check C$i --tier $tier 2>&1); rc=$?
  echo "C$i rc=$rc $(echo "$out" | grep -E '^\[C' | tail -1)"
  if [ $rc -ne 0 ]; then rc_all=1; echo "$out" | grep -E "^VIOLATION|what:|INCONCLUSIVE" | head -5; fi
done
exit $rc_all
