#!/bin/bash
# validates MANIFEST.json and all evidence files against the schemas
cd "$(dirname "$0")/.."
python3-vt - <<'PY'
import json, jsonschema, glob
jsonschema.validate(json.load(open('MANIFEST.json')), json.load(open('/root/.vp/MANIFEST.schema.json')))
sch = json.load(open('/root/.vp/EVIDENCE.schema.json'))
for f in sorted(glob.glob('evidence/*.json')):
    jsonschema.validate(json.load(open(f)), sch)
    print('ok', f)
print('manifest ok')
PY
