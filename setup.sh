#!/bin/bash
# Offline setup: build the monitor library and warm the three dependency configurations
# from /repo's current working tree.  Safe to re-run.
set -e
cd "$(dirname "$0")"
export CARGO_NET_OFFLINE=true
python3 - <<'PY'
import sys
sys.path.insert(0, '.')
from vf import core
core.build_vmon()
for cfg in ("std", "phf", "nostd", "nostdphf"):
    core.build_deps(cfg)
print("setup ok")
PY
