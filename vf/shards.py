"""Units (one generated enum + glue), shards (many units in one crate), compile/run/merge."""
import json
import os

from . import core
from .core import Inconclusive, log
from .spec import PRELUDE_TYPES

SHARD_HEAD = """#![allow(warnings, unused, non_camel_case_types, non_snake_case, non_upper_case_globals, deprecated)]
extern crate vmon;
use std::str::FromStr;
use std::convert::TryFrom;
""" + PRELUDE_TYPES


class Unit:
    def __init__(self, name, body, meta=None, sig="", head=""):
        """body: Rust items placed inside `pub mod <name> { use super::*; ... }`; it must define
        `pub fn drive(m: &mut vmon::Mon)`.  head: extra crate-level items needed by the unit."""
        self.name = name
        self.body = body
        self.meta = meta or {}
        self.sig = sig
        self.head = head

    def module(self):
        return "pub mod %s {\n    use super::*;\n%s\n}\n" % (self.name, self.body)


def shard_source(units, extra_head="", strum_use="use strum::*;"):
    parts = [SHARD_HEAD, extra_head]
    seen_heads = set()
    for u in units:
        frags = u.head if isinstance(u.head, (list, tuple)) else [u.head]
        for fr in frags:
            if fr and fr not in seen_heads:
                seen_heads.add(fr)
                parts.append(fr)
    ranges = {}
    src = "\n".join(parts) + "\n"
    line = src.count("\n") + 1
    for u in units:
        ms = u.module()
        n = ms.count("\n")
        ranges[u.name] = (line, line + n)
        src += ms
        line += n
    src += "fn main() {\n    let mut m = vmon::Mon::from_args();\n"
    for u in units:
        src += "    m.run_unit(%s, %s::drive);\n" % (json.dumps(u.name), u.name)
    src += "    m.finish();\n}\n"
    return src, ranges


class ShardJob:
    def __init__(self, idx, units, profile):
        self.idx = idx
        self.units = units
        self.profile = profile  # dict(name, opt, debug_assert)


PROFILES = {
    "debug": dict(name="debug", opt="0", debug_assert=True),
    "release": dict(name="release", opt="3", debug_assert=False),
    "fast": dict(name="fast", opt="1", debug_assert=True),
    # what matters for the release cross-check is that debug assertions and overflow checks are off, not the optimisation level
    # (optimising the largest generated units costs minutes of rustc time)
    "nodebug": dict(name="nodebug", opt="0", debug_assert=False),
}


def split_units(units, n):
    n = max(1, min(n, len(units)))
    shards = [[] for _ in range(n)]
    # distribute by body size so that shards compile in similar time
    order = sorted(units, key=lambda u: -len(u.body))
    loads = [0] * n
    for u in order:
        i = loads.index(min(loads))
        shards[i].append(u)
        loads[i] += len(u.body) + 200
    for s in shards:
        s.sort(key=lambda u: u.name)
    return [s for s in shards if s]


def diag_summary(c):
    errs = c.errors()
    if not errs:
        return c.stderr_raw[-600:]
    out = []
    for d in errs[:4]:
        msg = d["message"]
        if d["children"]:
            msg += " | " + " | ".join(x for x in d["children"][:2] if x)
        out.append(msg)
    return " || ".join(out)


def norm_msg(msg):
    import re
    msg = re.sub(r"`[^`]*`", "`_`", msg)
    msg = re.sub(r"\d+", "N", msg)
    return msg[:160]


def compile_units(run, units, deps, profile, vmon, tag, extra_head="", nshards=None, extern_name="strum",
                  compile_violation_sig="compile", extra_rustc=()):
    """Compile units into shards.  Units that fail to compile on their own are reported as
    violations (a corpus enum inside the property's domain must compile) and dropped.
    Returns list of (binary path, [units])."""
    nshards = nshards or core.NCPU
    shards = split_units(units, nshards)
    jobs = []
    for i, us in enumerate(shards):
        jobs.append((i, us))

    def build(job):
        i, us = job
        src, ranges = shard_source(us, extra_head)
        sp = run.path("%s_%s_%d.rs" % (tag, profile["name"], i))
        with open(sp, "w") as fh:
            fh.write(src)
        out = run.path("%s_%s_%d.bin" % (tag, profile["name"], i))
        c = core.rustc(sp, out, deps, opt=profile["opt"], debug_assert=profile["debug_assert"], vmon=vmon,
                       extern_name=extern_name, extra=extra_rustc)
        return (i, us, c, ranges, sp)

    results = core.pmap(build, jobs)
    good = []
    failed_units = []
    for i, us, c, ranges, sp in results:
        if c.ok:
            good.append((c.out, us))
            continue
        # attribute: which units contain an error line?
        suspects = set()
        for d in c.errors():
            for (_f, l0, l1) in d["lines"]:
                if l0 is None:
                    continue
                for u in us:
                    a, b = ranges[u.name]
                    if a <= l0 <= b:
                        suspects.add(u.name)
        sus = [u for u in us if u.name in suspects] or list(us)
        failed_units.append((us, sus, c))
    # recompile suspects alone, in parallel
    singles = []
    for us, sus, c in failed_units:
        for u in sus:
            singles.append(u)

    def build_single(u):
        src, _ = shard_source([u], extra_head)
        sp = run.path("%s_%s_single_%s.rs" % (tag, profile["name"], u.name))
        with open(sp, "w") as fh:
            fh.write(src)
        out = sp[:-3] + ".bin"
        c = core.rustc(sp, out, deps, opt=profile["opt"], debug_assert=profile["debug_assert"], vmon=vmon,
                       extern_name=extern_name, extra=extra_rustc)
        return (u, c, src)

    def bare_ok(u):
        """True unless the unit's enum, stripped of everything strum, is itself rejected by rustc (generator error)."""
        bs = u.meta.get("bare_src") if isinstance(u.meta, dict) else None
        if not bs:
            return True
        frags = u.head if isinstance(u.head, (list, tuple)) else [u.head]
        src = SHARD_HEAD + extra_head + "".join(fr for fr in frags if fr) + "\npub mod bare {\n    use super::*;\n" + bs + "\n}\n"
        sp = run.path("%s_%s_bare_%s.rs" % (tag, profile["name"], u.name))
        with open(sp, "w") as fh:
            fh.write(src)
        cb = core.rustc(sp, sp[:-3] + ".rmeta", deps, crate_type="lib", extra=["--emit=metadata"] + list(extra_rustc), vmon=vmon,
                        extern_name=extern_name)
        if not cb.ok:
            run.count("corpus/invalid-by-itself")
            log("[corpus] %s: generated enum is invalid Rust even without strum (%s) - dropped, not a verdict" % (u.name, diag_summary(cb)[:200]))
        return cb.ok

    # isolate in chunks; once enough corpus enums are confirmed as rejected on their own the verdict is settled and the
    # remaining suspects are dropped without compiling each of them alone
    single_res = []
    bad_names = set()
    for ci in range(0, len(singles), 48):
        chunk = singles[ci:ci + 48]
        res = core.pmap(build_single, chunk)
        single_res += res
        if sum(1 for _u, c, _s in single_res if not c.ok) >= 8 and ci + 48 < len(singles):
            rest_n = len(singles) - (ci + 48)
            run.count("compile/isolation-cut-short", rest_n)
            log("[compile] %d suspects fail on their own; %d further suspects are dropped without isolating them" % (
                sum(1 for _u, c, _s in single_res if not c.ok), rest_n))
            for u in singles[ci + 48:]:
                bad_names.add(u.name)
            break
    for u, c, src in single_res:
        if not c.ok:
            bad_names.add(u.name)
            if not bare_ok(u):
                continue
            summ = diag_summary(c)
            run.count("compile/corpus-enum-rejected")
            run.violation(
                "%s:%s:%s" % (compile_violation_sig, norm_msg(summ), u.sig),
                "corpus enum %s (in the property's domain) does not compile against this tree [%s]: %s"
                % (u.name, profile["name"], summ),
                detail={"unit": u.name, "meta": u.meta, "diagnostics": [d["rendered"] for d in c.errors()[:3]]},
                replay_src=src, replay_meta={"profile": profile["name"], "deps": deps.cfg if deps else None, "kind": "compile"},
            )
    # rebuild the failed shards without the bad units
    rebuild = []
    for us, sus, c in failed_units:
        rest = [u for u in us if u.name not in bad_names]
        if len(rest) == len(us):
            raise Inconclusive("shard failed to compile but no unit fails alone: " + diag_summary(c))
        if rest:
            rebuild.append((1000 + len(rebuild), rest))
    second = []
    for i, us, c, ranges, sp in core.pmap(build, rebuild):
        if c.ok:
            good.append((c.out, us))
        else:
            second.append((us, c))
    # line attribution missed some failing units: fall back to compiling every remaining unit of those shards alone
    # (not when enough corpus enums have already been confirmed as rejected on their own: the verdict is settled, and isolating
    # thousands of units one by one against a tree that breaks them all only costs time)
    if second and run.counters.get("compile/corpus-enum-rejected", 0) >= 8:
        run.count("compile/isolation-cut-short", sum(len(us) for us, _ in second))
        log("[compile] %d corpus enums already rejected on their own; %d further units of failing shards are not isolated" % (
            run.counters.get("compile/corpus-enum-rejected", 0), sum(len(us) for us, _ in second)))
        second = []
    for us, c0 in second:
        res2 = core.pmap(build_single, us)
        ok_units = []
        for u, c, src in res2:
            if c.ok:
                ok_units.append(u)
                continue
            if not bare_ok(u):
                continue
            summ = diag_summary(c)
            run.count("compile/corpus-enum-rejected")
            run.violation(
                "%s:%s:%s" % (compile_violation_sig, norm_msg(summ), u.sig),
                "corpus enum %s (in the property's domain) does not compile against this tree [%s]: %s" % (u.name, profile["name"], summ),
                detail={"unit": u.name, "meta": u.meta, "diagnostics": [d["rendered"] for d in c.errors()[:3]]},
                replay_src=src, replay_meta={"profile": profile["name"], "deps": deps.cfg if deps else None, "kind": "compile"})
        if len(ok_units) == len(us):
            raise Inconclusive("shard fails to compile but every unit compiles alone: " + diag_summary(c0))
        if ok_units:
            i, us2, c, ranges, sp = build((2000 + len(good), ok_units))
            if not c.ok:
                raise Inconclusive("shard still fails after removing all failing units: " + diag_summary(c))
            good.append((c.out, us2))
    return good


SHARD_TIMEOUT = int(os.environ.get("VERIF_SHARD_TIMEOUT", "240"))
UNIT_TIMEOUT = int(os.environ.get("VERIF_UNIT_TIMEOUT", "150"))


def run_shards(run, bins, unit_index, args=None, timeout=None, rebuild=None):
    """Run shard binaries, merge their records into `run`.  unit_index: name -> Unit.
    Bounded progress: a shard normally finishes in seconds.  If one exceeds the (generous) shard watchdog, the units
    it had not completed are rebuilt and run one per process; a unit that, alone, still does not finish within
    UNIT_TIMEOUT (its peers take well under a second) is reported as a violation 'call does not return'
    (e.g. unbounded recursion in generated code); if no rebuild function is available the run is inconclusive."""
    args = args or [str(run.seed), run.tier]
    timeout = timeout or (SHARD_TIMEOUT if run.tier == "quick" else SHARD_TIMEOUT * 8)

    def go(b):
        path, us = b
        try:
            rc, lines, err = core.run_bin(path, args, timeout=timeout, raise_timeout=True)
            return (path, us, rc, lines, err, False)
        except core.Timeout as t:
            return (path, us, None, t.partial, "", True)

    samples_by_unit = {}
    queue = list(bins)
    rounds = 0
    while queue:
        rounds += 1
        if rounds > 12:
            raise Inconclusive("too many watchdog rounds")
        next_queue = []
        culprits = []
        rest_units = []
        for path, us, rc, lines, err, timed_out in core.pmap(go, queue):
            if not timed_out:
                merge_records(run, path, us, rc, lines, err, unit_index, args, samples_by_unit)
                continue
            done = {ln.split("\t")[1] for ln in lines if ln.startswith("D\t") and len(ln.split("\t")) == 4}
            finished = [u for u in us if u.name in done]
            pending = [u for u in us if u.name not in done]     # units run in list order: pending[0] is the one that hangs
            if finished:
                merge_records(run, path, finished, 0, [l for l in lines if not l.startswith("C\t")] + ["E"], "", unit_index, args, samples_by_unit)
            if rebuild is None:
                raise Inconclusive("watchdog: %s exceeded %ds and no single-unit rebuild is available" % (os.path.basename(path), timeout))
            culprits.append(pending[0])
            rest_units.append(pending[1:])
        if culprits:
            singles = rebuild(culprits, len(culprits))

            def go1(b):
                p1, u1 = b
                try:
                    rc1, l1, e1 = core.run_bin(p1, args, timeout=UNIT_TIMEOUT, raise_timeout=True)
                    return (p1, u1, rc1, l1, e1, False)
                except core.Timeout as t:
                    return (p1, u1, None, t.partial, "", True)

            for p1, u1, rc1, l1, e1, to1 in core.pmap(go1, singles):
                if not to1:
                    merge_records(run, p1, u1, rc1, l1, e1, unit_index, args, samples_by_unit)
                    continue
                for u in u1:
                    src, _ = shard_source([u], "")
                    run.count("units/non-terminating")
                    run.violation("non-termination|%s" % u.sig,
                                  "driving %s does not terminate: alone in its own process it did not finish within %d s (peer units finish in well under a second) - a generated call does not return"
                                  % (u.name, UNIT_TIMEOUT), detail={"unit": u.name, "meta": u.meta, "last_records": l1[-3:]},
                                  replay_src=src, replay_meta={"kind": "run", "args": args, "deps": getattr(run, "cur_deps", "std")})
        if any(v["sig"].startswith("non-termination|") for v in run.violations):
            # the verdict is decided; do not spend the watchdog again on the units that were queued behind the hanging one
            run.count("units/skipped-after-non-termination", sum(len(x) for x in rest_units))
            break
        for rest in rest_units:
            if rest:
                next_queue += rebuild(rest, 1)
        queue = next_queue
    return samples_by_unit


def merge_records(run, path, us, rc, lines, err, unit_index, args, samples_by_unit, count_events=True):
    if True:
        done = set()
        ended = False
        for ln in lines:
            parts = ln.split("\t")
            t = parts[0]
            if t == "V" and len(parts) >= 4:
                unit, sig, js = parts[1], parts[2], "\t".join(parts[3:])
                try:
                    d = json.loads(js)
                except ValueError:
                    d = {"raw": js}
                u = unit_index.get(unit)
                usig = u.sig if u else ""
                what = "%s on %s: expected %s, observed %s" % (sig, unit, d.get("expected"), d.get("observed"))
                for k in ("input", "history", "api", "subject"):
                    if k in d:
                        what += " [%s=%r]" % (k, d[k])
                src = None
                if u is not None:
                    src, _ = shard_source([u], run.extra_head if hasattr(run, "extra_head") else "")
                run.violation("%s|%s" % (sig, usig), what, detail={"unit": unit, "event": d, "meta": u.meta if u else {}},
                              replay_src=src, replay_meta={"kind": "run", "args": args, "bin_profile": os.path.basename(path), "deps": getattr(run, "cur_deps", "std")})
            elif t == "S" and len(parts) >= 3:
                try:
                    d = json.loads("\t".join(parts[2:]))
                except ValueError:
                    continue
                d["unit"] = parts[1]
                samples_by_unit.setdefault(parts[1], []).append(d)
            elif t == "C" and len(parts) == 3:
                run.count(parts[1], int(parts[2]))
            elif t == "D" and len(parts) == 4:
                done.add(parts[1])
                if count_events:
                    run.evaluations += int(parts[2])
                    run.distinct += int(parts[3])
                if int(parts[2]) == 0:
                    run.count("units/zero-events")
            elif t == "P" and len(parts) >= 3:
                u = unit_index.get(parts[1])
                msg = parts[2]
                src = None
                if u is not None:
                    src, _ = shard_source([u], "")
                run.violation("unit-panic:%s|%s" % (core.hashlib.sha256(msg.encode()).hexdigest()[:8], u.sig if u else ""),
                              "unexpected panic while driving %s: %s" % (parts[1], msg),
                              detail={"unit": parts[1], "meta": u.meta if u else {}}, replay_src=src,
                              replay_meta={"kind": "run", "args": args, "deps": getattr(run, "cur_deps", "std")})
            elif t == "E":
                ended = True
        missing = [u.name for u in us if u.name not in done]
        if rc != 0 or not ended or missing:
            raise Inconclusive("shard %s: rc=%s ended=%s missing units=%s stderr=%s"
                               % (os.path.basename(path), rc, ended, missing[:5], err[-400:]))
        run.count("units/driven", len(us))
