"""Abstract enum descriptions and their rendering to Rust source."""
import random
from dataclasses import dataclass, field
from typing import List, Optional, Tuple

from . import model


def rs_str(s):
    """Render a python string as a Rust string literal."""
    out = ['"']
    for ch in s:
        o = ord(ch)
        if ch == '"':
            out.append('\\"')
        elif ch == "\\":
            out.append("\\\\")
        elif ch == "\n":
            out.append("\\n")
        elif ch == "\r":
            out.append("\\r")
        elif ch == "\t":
            out.append("\\t")
        elif ch == "\0":
            out.append("\\0")
        elif o < 0x20 or o == 0x7F or o in (0x200B, 0xFEFF, 0x2028, 0x2029) or 0x80 <= o < 0xA0:
            out.append("\\u{%x}" % o)
        else:
            out.append(ch)
    out.append('"')
    return "".join(out)


def rs_lit(s, salt=0):
    """The same string value as rs_str, written in one of the literal forms Rust offers (raw strings, \\u{..} and \\x..
    escapes, line continuation).  The form is a deterministic function of (s, salt); the VALUE never changes."""
    plain = rs_str(s)
    r = random.Random("lit|%s|%s" % (s, salt))
    x = r.random()
    if x < 0.55 or s == "":
        return plain
    simple = all(ch == "\\" or rs_str(ch) == '"%s"' % ch for ch in s.replace('"', ""))
    if x < 0.67:
        if simple and '"' not in s:
            return 'r"%s"' % s
        return plain
    if x < 0.77:
        if simple and '"#' not in s:
            return 'r#"%s"#' % s
        return plain
    if x < 0.86:
        if any(ord(ch) >= 0x80 for ch in s):
            return '"' + "".join(rs_str(ch)[1:-1] if ord(ch) < 0x80 else "\\u{%X}" % ord(ch) for ch in s) + '"'
        return plain
    if x < 0.93:
        for i, ch in enumerate(s):
            if ch.isascii() and ch.isalnum():
                return '"' + "".join(rs_str(c)[1:-1] if j != i else "\\x%02x" % ord(c) for j, c in enumerate(s)) + '"'
        return plain
    if len(s) >= 2:
        k = len(s) // 2
        if not s[k].isspace():
            return rs_str(s[:k])[:-1] + "\\\n        " + rs_str(s[k:])[1:]
    return plain


# --------------------------------------------------------------------------------------------
# payload type pool: key -> (rust type, default expression, [non-default sample expressions])
# --------------------------------------------------------------------------------------------
TYPES = {
    "u8": ("u8", "0u8", ["7u8", "255u8"]),
    "u16": ("u16", "0u16", ["300u16", "u16::MAX"]),
    "i32": ("i32", "0i32", ["-5i32", "i32::MIN"]),
    "i64": ("i64", "0i64", ["i64::MAX", "-1i64"]),
    "bool": ("bool", "false", ["true"]),
    "char": ("char", "'\\0'", ["'x'", "'é'"]),
    "String": ("String", "String::new()", ['String::from("hi")', 'String::from("é \\"q\\" {}")']),
    "OptU8": ("Option<u8>", "None::<u8>", ["Some(3u8)"]),
    "VecU8": ("Vec<u8>", "Vec::<u8>::new()", ["vec![1u8, 2u8]"]),
    "Unit": ("()", "()", ["()"]),
    "T": ("T", "0u8", ["9u8", "200u8"]),            # generic parameter, instantiated with u8
    "U": ("U", "String::new()", ['String::from("u")']),  # second generic parameter, instantiated with String
    "RefStr": ("&'a str", '""', ['"borrowed"']),
    "CG": ("CG<N>", "CG::<3>(0u8)", ["CG::<3>(5u8)"]),
    "F64": ("f64", "0f64", ["1.5f64", "-0.25f64"]),
    "Item": ("I::Item", "0u8", ["5u8", "77u8"]),
    "RefItem": ("&'a I::Item", "&0u8", ["&5u8"]),
    "Tup": ("(u8, bool)", "(0u8, false)", ["(1u8, true)"]),
    # a type parameter WITHOUT a Default bound, instantiated with a type that is not Default: legal for every derive as
    # long as the parameter only occurs inside types that are Default for any T
    "OptT": ("Option<T>", "None::<NoDef>", ["Some(NoDef(4))"]),
    "VecT": ("Vec<T>", "Vec::<NoDef>::new()", ["vec![NoDef(1), NoDef(2)]"]),
}

# helper items every shard may use
PRELUDE_TYPES = """
#[derive(Debug, PartialEq, Clone, Default)]
pub struct CG<const N: usize>(pub u8);
#[derive(Debug, PartialEq, Clone)]
pub struct NoDef(pub u8);
"""


@dataclass
class Field:
    ty: str                      # key into TYPES
    name: Optional[str] = None   # None for tuple fields
    default_with: Optional[str] = None   # field-level default_with (named fields)
    dw_expr: Optional[str] = None        # expression the default_with function returns


@dataclass
class Variant:
    ident: str
    kind: str = "unit"           # unit | tuple | named
    fields: List[Field] = field(default_factory=list)
    serialize: List[str] = field(default_factory=list)
    to_string: Optional[str] = None
    disabled: bool = False
    default: bool = False
    transparent: bool = False
    default_with: Optional[str] = None   # variant-level (tuple variants)
    dw_expr: Optional[str] = None
    aci: Optional[bool] = None
    aci_bare: bool = True        # `ascii_case_insensitive` vs `ascii_case_insensitive = true`
    message: Optional[str] = None
    detailed_message: Optional[str] = None
    docs: List[Tuple[str, str]] = field(default_factory=list)   # (form, text) form in {"///", "attr", "block"}
    props: List[List[Tuple[str, str, object]]] = field(default_factory=list)  # groups of (key, kind, value)
    disc: Optional[Tuple[str, int]] = None   # (expression text, value)
    split_attrs: int = 0          # 0: one #[strum(..)]; 1: one attribute per item; 2: random grouping
    attr_order_seed: int = 0
    extra_attrs: List[str] = field(default_factory=list)   # raw attribute lines (e.g. strum_discriminants pass-through)
    name_pos: int = 0            # where (relative to other attributes) naming items are placed

    def strum_items(self):
        items = []
        lit = lambda t: rs_lit(t, self.attr_order_seed)
        for s in self.serialize:
            items.append("serialize = " + lit(s))
        if self.to_string is not None:
            items.append("to_string = " + lit(self.to_string))
        if self.disabled:
            items.append("disabled")
        if self.default:
            items.append("default")
        if self.transparent:
            items.append("transparent")
        if self.default_with is not None:
            items.append("default_with = " + rs_str(self.default_with))
        if self.aci is not None:
            if self.aci and self.aci_bare:
                items.append("ascii_case_insensitive")
            else:
                items.append("ascii_case_insensitive = " + ("true" if self.aci else "false"))
        if self.message is not None:
            items.append("message = " + lit(self.message))
        if self.detailed_message is not None:
            items.append("detailed_message = " + lit(self.detailed_message))
        for gi, g in enumerate(self.props):
            if g:
                tc = "," if (self.attr_order_seed + gi) % 5 == 2 else ""     # props(a = 1,) is legal
                items.append("props(" + ", ".join("%s = %s" % (k, render_prop(kind, val, self.attr_order_seed)) for k, kind, val in g) + tc + ")")
            elif self.attr_order_seed % 2 == 1:
                items.append("props()")                                      # so is an empty group
        return items

    def render(self, rng=None):
        lines = []
        doc_lines = []
        for form, text in self.docs:
            if form == "///":
                doc_lines.append("///" + text)
            elif form == "attr":
                doc_lines.append("#[doc = %s]" % rs_lit(text, self.attr_order_seed))
            else:
                doc_lines.append("/**" + text + "*/")
        # doc attributes may be interrupted by other attributes: all of them still belong to the variant's documentation
        late_docs = []
        if len(doc_lines) >= 2 and self.attr_order_seed % 3 == 2:
            cut = 1 + self.attr_order_seed % (len(doc_lines) - 1) if len(doc_lines) > 2 else 1
            doc_lines, late_docs = doc_lines[:cut], doc_lines[cut:]
        elif doc_lines and self.attr_order_seed % 7 == 3:
            doc_lines, late_docs = [], doc_lines
        lines.extend(doc_lines)
        items = self.strum_items()
        if items:
            r = random.Random(self.attr_order_seed)
            if self.attr_order_seed:
                # keep serialize order (it is semantically relevant for nothing but we keep the
                # model simple): shuffle only the relative position of non-serialize items
                ser = [i for i in items if i.startswith("serialize")]
                oth = [i for i in items if not i.startswith("serialize")]
                r.shuffle(oth)
                merged = []
                si = oi = 0
                while si < len(ser) or oi < len(oth):
                    if si < len(ser) and (oi >= len(oth) or r.random() < 0.5):
                        merged.append(ser[si]); si += 1
                    else:
                        merged.append(oth[oi]); oi += 1
                items = merged
            tc = "," if self.attr_order_seed % 4 == 1 else ""   # a trailing comma is legal
            if self.split_attrs == 0:
                lines.append("#[strum(%s%s)]" % (", ".join(items), tc))
            elif self.split_attrs == 1:
                for it in items:
                    lines.append("#[strum(%s%s)]" % (it, tc))
            else:
                groups = []
                for it in items:
                    if groups and r.random() < 0.5:
                        groups[-1].append(it)
                    else:
                        groups.append([it])
                for g in groups:
                    lines.append("#[strum(%s)]" % ", ".join(g))
        lines.extend(self.extra_attrs)
        lines.extend(late_docs)
        body = self.ident
        if self.kind == "tuple":
            body += "(" + ", ".join(TYPES[f.ty][0] for f in self.fields) + ")"
        elif self.kind == "named":
            parts = []
            for f in self.fields:
                p = ""
                if f.default_with is not None:
                    # other attributes may precede the strum one on a field
                    pre = ["", "", "#[allow(unused)] ", "/// field doc\n        ", "#[cfg(all())] "][(self.attr_order_seed + len(parts)) % 5]
                    p += pre + "#[strum(default_with = %s)] " % rs_str(f.default_with)
                p += "%s: %s" % (f.name, TYPES[f.ty][0])
                parts.append(p)
            body += " { " + ", ".join(parts) + " }"
        if self.disc is not None:
            body += " = " + self.disc[0]
        lines.append(body + ",")
        return "\n".join("    " + l for l in lines)

    # expressions ---------------------------------------------------------------------------
    def ctor(self, path, exprs):
        if self.kind == "unit":
            return "%s::%s" % (path, self.ident)
        if self.kind == "tuple":
            return "%s::%s(%s)" % (path, self.ident, ", ".join(exprs))
        return "%s::%s { %s }" % (path, self.ident, ", ".join("%s: %s" % (f.name, e) for f, e in zip(self.fields, exprs)))

    def default_exprs(self, use_default_with=False):
        out = []
        for i, f in enumerate(self.fields):
            if use_default_with and self.kind == "tuple" and self.default_with is not None:
                out.append(self.dw_expr)
            elif use_default_with and f.default_with is not None:
                out.append(f.dw_expr)
            else:
                out.append(TYPES[f.ty][1])
        return out

    def sample_exprs(self, k):
        """k-th non-default payload."""
        out = []
        for f in self.fields:
            s = TYPES[f.ty][2]
            out.append(s[k % len(s)])
        return out


def render_prop(kind, val, salt=0):
    if kind == "str":
        return rs_lit(val, salt)
    if kind == "int":
        return str(val)
    if kind == "intlit":       # (source spelling, value)
        return val[0]
    if kind == "bool":
        return "true" if val else "false"
    return str(val)   # raw literal text (C20)


GENERICS = {
    # key: (decl params, where clause, instantiation args, impl usable marker)
    None: ("", "", ""),
    "T": ("<T: Default>", "", "::<u8>"),
    "Tw": ("<T>", " where T: Default", "::<u8>"),
    "TU": ("<T: Default, U: Default>", "", "::<u8, String>"),
    "a": ("<'a>", "", "::<'static>"),
    "aT": ("<'a, T: Default>", "", "::<'static, u8>"),
    "N": ("<const N: usize>", "", "::<3>"),
    "TN": ("<T: Default, const N: usize>", "", "::<u8, 3>"),
    "Nfree": ("<const N: usize>", "", "::<3>"),
    "Tdef": ("<T: Default = u8>", "", "::<u8>"),
    "aTwd": ("<'a, T>", " where T: Default + Clone + 'a", "::<'static, u8>"),
    "TwU": ("<T, U>", " where T: Default, U: Default + Clone", "::<u8, String>"),
    "TNdef": ("<T: Default = u8, const N: usize = 3>", "", "::<u8, 3>"),
    "aTw": ("<'a, T>", " where T: Clone + 'a", "::<'static, u8>"),
    "I": ("<I>", " where I: Iterator, I::Item: Clone", "::<std::vec::IntoIter<u8>>"),
    "aI": ("<'a, I: Iterator>", " where I::Item: 'a", "::<'static, std::vec::IntoIter<u8>>"),
    "Tnd": ("<T>", "", "::<NoDef>"),
    "NT": ("<const N: usize, T: Default>", "", "::<3, u8>"),
}
# other ways of writing the same shape (const parameters before type parameters, a trailing comma after the where clause as
# rustfmt writes it, bounds moved between the parameter list and the where clause); chosen per enum in EnumSpec.generic_form
GENERICS_ALT = {
    "TN": [("<const N: usize, T: Default>", "", "::<3, u8>")],
    "TNdef": [("<T = u8, const N: usize = 3>", " where T: Default,", "::<u8, 3>")],
    "Tw": [("<T>", " where T: Default,", "::<u8>"), ("<T>", "\nwhere\n    T: Default,\n", "::<u8>")],
    "TwU": [("<T, U>", " where T: Default, U: Default + Clone,", "::<u8, String>"), ("<T, U: Clone>", "\nwhere\n    T: Default,\n    U: Default,\n", "::<u8, String>")],
    "aTwd": [("<'a, T>", " where T: Default + Clone + 'a,", "::<'static, u8>")],
    "aTw": [("<'a, T>", " where T: Clone + 'a,", "::<'static, u8>"), ("<'a, T: 'a>", " where T: Clone", "::<'static, u8>")],
    "I": [("<I>", " where I: Iterator, I::Item: Clone,", "::<std::vec::IntoIter<u8>>")],
    "aI": [("<'a, I: Iterator>", " where I::Item: 'a,", "::<'static, std::vec::IntoIter<u8>>")],
    "TU": [("<T: Default, U>", " where U: Default,", "::<u8, String>")],
}


@dataclass
class EnumSpec:
    name: str
    variants: List[Variant]
    derives: List[str] = field(default_factory=list)          # strum derives
    std_derives: List[str] = field(default_factory=lambda: ["Debug", "PartialEq", "Clone"])
    serialize_all: Optional[str] = None
    aci: bool = False
    prefix: Optional[str] = None
    use_phf: bool = False
    parse_err: Optional[Tuple[str, str]] = None   # (type path, fn path)
    const_into_str: bool = False
    crate_path: Optional[str] = None
    generics: Optional[str] = None
    repr: Optional[str] = None
    vis: str = "pub"
    enum_attr_split: int = 0
    extra_enum_attrs: List[str] = field(default_factory=list)
    attr_order_seed: int = 0
    macro_params: List[Tuple[str, str, str]] = field(default_factory=list)   # (preceding text, token text, fragment kind): passed as macro arguments
    strum_path: str = "strum"      # path used in the derive list
    nest: bool = False             # declare the enum inside a nested module that the unit re-exports (`pub use defs_x::*`)
    tags: List[str] = field(default_factory=list)   # feature signature for evidence / signatures

    def enum_items(self):
        items = []
        if self.serialize_all is not None:
            items.append("serialize_all = " + rs_str(self.serialize_all))
        if self.aci:
            items.append("ascii_case_insensitive")
        if self.prefix is not None:
            items.append("prefix = " + rs_lit(self.prefix, self.attr_order_seed))
        if self.use_phf:
            items.append("use_phf")
        if self.parse_err is not None:
            items.append("parse_err_ty = " + self.parse_err[0])
            items.append("parse_err_fn = " + self.parse_err[1])
        if self.const_into_str:
            items.append("const_into_str")
        if self.crate_path is not None:
            items.append("crate = " + rs_str(self.crate_path))
        return items

    def path(self):
        """Type path with concrete generic arguments, usable in expressions (alias emitted by render())."""
        return self.name if not self.generics else "T" + self.name

    def ty(self):
        return self.path()

    def generic_form(self):
        import zlib
        forms = [GENERICS[self.generics]] + GENERICS_ALT.get(self.generics, [])
        return forms[(zlib.crc32(self.name.encode()) + self.attr_order_seed) % len(forms)]

    def render(self):
        lines = []
        ders = list(self.std_derives) + ["%s::%s" % (self.strum_path, d) for d in self.derives]
        if ders:
            lines.append("#[derive(%s)]" % ", ".join(ders))
        rest = []
        items = self.enum_items()
        if items:
            if self.enum_attr_split == 0:
                rest.append("#[strum(%s)]" % ", ".join(items))
            else:
                for it in items:
                    rest.append("#[strum(%s)]" % it)
        if self.repr:
            rest.append("#[repr(%s)]" % self.repr)
        rest.extend(self.extra_enum_attrs)
        if self.attr_order_seed:
            # the relative order of #[repr], #[strum(..)] and other attributes carries no meaning
            random.Random(self.attr_order_seed).shuffle(rest)
            if self.attr_order_seed % 3 == 0:
                rest.insert(random.Random(self.attr_order_seed).randint(0, len(rest)), "#[allow(dead_code)]")
        lines.extend(rest)
        decl, where, inst = self.generic_form()
        lines.append("%s enum %s%s%s {" % (self.vis, self.name, decl, where))
        for v in self.variants:
            lines.append(v.render())
        lines.append("}")
        if self.generics:
            lines.append("%s type T%s = %s%s;" % (self.vis if self.vis.startswith("pub(") else "pub", self.name, self.name, inst.replace("::<", "<")))
        src = "\n".join(lines)
        if self.macro_params:
            # the item is produced by a macro_rules! template; some of its tokens arrive as macro arguments
            pats, args = [], []
            for i, (prefix, text, frag) in enumerate(self.macro_params):
                # only the occurrence directly after `prefix` becomes a macro argument
                if prefix + text in src:
                    src = src.replace(prefix + text, prefix + "$p%d" % i)
                    pats.append("$p%d:%s" % (i, frag))
                    args.append(text)
            src = "macro_rules! decl_%s { (%s) => {\n%s\n} }\ndecl_%s!(%s);" % (self.name.lower(), ", ".join(pats), src, self.name.lower(), ", ".join(args))
        if self.nest:
            # everything the derives generate next to the enum must be usable from outside the enum's own module
            src = "pub mod defs_%s {\n    use super::*;\n%s\n}\npub use defs_%s::*;" % (self.name.lower(), src, self.name.lower())
        return src

    def render_bare(self):
        """The same enum without any strum derive or strum attribute: if THIS does not compile, the generator produced an
        invalid enum (outside every property's domain) and a compile failure of the full unit is not strum's doing."""
        import copy
        b = copy.deepcopy(self)
        b.derives = []
        b.serialize_all = None
        b.aci = False
        b.prefix = None
        b.use_phf = False
        b.parse_err = None
        b.const_into_str = False
        b.crate_path = None
        b.macro_params = []
        b.nest = False
        if b.vis == "pub(in super::super)":
            b.vis = "pub(in super)"     # one module level less without the nest module
        b.extra_enum_attrs = [a for a in b.extra_enum_attrs if "strum" not in a]
        for v in b.variants:
            v.serialize, v.to_string = [], None
            v.disabled = v.default = v.transparent = False
            v.default_with = None
            v.aci = None
            v.message = v.detailed_message = None
            v.props = []
            v.extra_attrs = [a for a in v.extra_attrs if "strum" not in a]
            for f in v.fields:
                f.default_with = None
        return b.render()

    # model helpers ---------------------------------------------------------------------------
    def enabled(self):
        return [i for i, v in enumerate(self.variants) if not v.disabled]

    def signature(self):
        kinds = "".join(v.kind[0] for v in self.variants)
        flags = []
        if self.serialize_all:
            flags.append("sa=" + self.serialize_all)
        if self.aci:
            flags.append("aci")
        if self.prefix is not None:
            flags.append("prefix")
        if self.use_phf:
            flags.append("phf")
        if self.generics:
            flags.append("gen=" + self.generics)
        if self.repr:
            flags.append("repr=" + self.repr)
        if any(v.disabled for v in self.variants):
            flags.append("disabled")
        if any(v.default for v in self.variants):
            flags.append("default")
        return "%s[%s]%s" % (kinds, ",".join(flags), "+".join(self.tags))


def pspec_rust(spec, name="SPEC", extra=()):
    """Render the parse-model table for vmon::inputs::PSpec."""
    vs = []
    for v in spec.variants:
        sp = model.spellings(v, spec.serialize_all)
        vs.append(
            "vmon::inputs::VSpec { ident: %s, spellings: &[%s], ci: %s, enabled: %s, is_default: %s }"
            % (rs_str(v.ident), ", ".join(rs_str(s) for s in sp),
               "true" if model.effective_ci(v, spec.aci) else "false",
               "true" if not v.disabled else "false", "true" if v.default else "false"))
    ex = ", ".join("(%s, %s)" % (rs_str(c), rs_str(s)) for c, s in extra)
    return ("static %s: vmon::inputs::PSpec = vmon::inputs::PSpec { variants: &[\n        %s\n    ], extra: &[%s], overlap: %s };"
            % (name, ",\n        ".join(vs), ex, "true" if getattr(spec, "overlap", False) else "false"))

# a function referenced by noise `default_with` attributes (only EnumString would ever call it)
PRELUDE_TYPES += "\npub fn noise_default_with() -> u8 { 99 }\n"
