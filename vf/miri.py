"""Secondary, non-deciding Miri pass (DESIGN §2): a few small units are interpreted under Miri, which turns
arithmetic overflow, invalid enum tags and aliasing violations into hard errors.  A Miri *infrastructure*
failure is recorded as such in the evidence and never changes the verdict; UB reported by Miri is a violation."""
import os
import shutil
import subprocess
import time

from . import core, shards


def run_miri(run, units, extra_args=(), timeout=2400, head=""):
    t0 = time.time()
    info = {"units": len(units), "status": "not-run"}
    run.extra["miri"] = info
    # fixed project location per property (cargo-miri records the package directory next to the cached binary);
    # concurrent checks are serialised by a lock
    import fcntl
    base = os.path.join(core.TARGET, core.repokey(), "miri")
    proj = os.path.join(base, "proj_%s" % run.pid.lower())
    os.makedirs(os.path.join(proj, "src"), exist_ok=True)
    lockf = open(os.path.join(base, ".lock"), "w")
    fcntl.flock(lockf, fcntl.LOCK_EX)
    open(os.path.join(proj, "Cargo.toml"), "w").write(
        '[package]\nname = "verif_miri_%s"\nversion = "0.0.0"\nedition = "2021"\n\n[dependencies]\n'
        'strum = { path = "%s/strum", features = ["derive"] }\nvmon = { path = "%s/vmon" }\n\n[workspace]\n' % (run.pid.lower(), core.REPO, core.VERIF))
    lock = os.path.join(core.REPO, "Cargo.lock")
    if os.path.exists(lock):
        shutil.copy(lock, os.path.join(proj, "Cargo.lock"))
    src, _ = shards.shard_source(units, head)
    open(os.path.join(proj, "src", "main.rs"), "w").write(src)
    env = dict(core.ENV)
    env["CARGO_TARGET_DIR"] = os.path.join(base, "t")
    env.pop("RUSTFLAGS", None)
    args = [str(run.seed), "quick", "miri"] + list(extra_args)
    try:
        p = subprocess.run(["cargo", "+nightly", "miri", "run", "--offline", "--"] + args, cwd=proj, env=env,
                           stdout=subprocess.PIPE, stderr=subprocess.PIPE, text=True, timeout=timeout)
    except (subprocess.TimeoutExpired, OSError) as e:
        info["status"] = "infrastructure-failure: %s" % type(e).__name__
        return info
    lines = p.stdout.splitlines()
    info["wall_s"] = round(time.time() - t0, 1)
    ub = [l for l in p.stderr.splitlines() if "Undefined Behavior" in l or "error: unsupported operation" in l]
    if ub:
        info["status"] = "undefined-behaviour"
        run.violation("miri:" + ub[0][:120], "Miri reports undefined behaviour in generated code: " + ub[0] + " | " + p.stderr[-800:],
                      replay_src=src, replay_meta={"kind": "run", "args": args})
        return info
    if p.returncode != 0 or "E" not in lines:
        info["status"] = "infrastructure-failure: exit %d: %s" % (p.returncode, p.stderr[-300:].replace("\n", " | "))
        return info
    index = {u.name: u for u in units}
    samples = {}
    before = len(run.violations)
    ev0 = run.evaluations
    try:
        shards.merge_records(run, "miri", units, 0, lines, "", index, args, samples, count_events=True)
    except core.Inconclusive as e:
        info["status"] = "infrastructure-failure: %s" % str(e)[:200]
        return info
    info["status"] = "ok"
    info["ops"] = run.evaluations - ev0
    info["errors"] = len(run.violations) - before
    return info
