"""C02 — printing a variant and parsing the result returns the same variant."""
from .common import *
from .. import strgen

RULE = ("programs: per accepted serialize_all style string (none + 16) a grid of attribute shapes plus seeded random enums of "
        "C01's domain without prefix, each deriving EnumString + {Display | AsRefStr | IntoStaticStr | all three} + EnumMessage; "
        "events: for every enabled non-default variant and several payloads, from_str of to_string()/format!/as_ref()/"
        "<&'static str>::from(&v)/from(v) and of every string in get_serializations(); oracle: Ok(variant with default payload) "
        "where the expected value is built by the generator; get_serializations() compared as a set with the model spellings. "
        "non-trivial: the variant has a naming attribute or the enum a serialize_all style; distinct = (enum, variant, payload, api, string).")

DERIVE_SETS = [["Display"], ["AsRefStr"], ["IntoStaticStr"], ["Display", "AsRefStr", "IntoStaticStr"]]


def glue(spec):
    idx = [i for i, v in enumerate(spec.variants) if not v.disabled and not v.default]
    nontrivial = [bool(v.serialize or v.to_string is not None or spec.serialize_all) for v in spec.variants]
    body = strgen.default_with_fns(spec) + "\n" + spec.render() + "\n"
    body += "pub fn drive(m: &mut vmon::Mon) {\n"
    arms = []
    for i, v in enumerate(spec.variants):
        arms.append("%d => %s" % (i, "unreachable!()" if v.default else v.ctor(spec.path(), v.default_exprs(use_default_with=True))))
    body += "    let make = |i: usize| -> %s { match i { %s } };\n" % (spec.ty(), ", ".join(arms + ["_ => unreachable!()"]))
    body += "    " + samples_vec(spec, idx, index_of=lambda i: i) + "\n"
    body += printers_code(spec) + "\n"
    body += "    let parse = |s: &str| <%s as std::str::FromStr>::from_str(s).map_err(|e| format!(\"{:?}\", e));\n" % spec.ty()
    if "EnumMessage" in spec.derives:
        body += "    let ser = |v: &%s| strum::EnumMessage::get_serializations(v).iter().map(|s| s.to_string()).collect::<Vec<String>>();\n" % spec.ty()
        body += "    vmon::names::roundtrip(m, &samples, &make, &printers, &parse, Some(&ser), %s);\n" % bool_slice(nontrivial)
        for i in idx:
            v = spec.variants[i]
            if v.ident.startswith("r#") and not v.serialize and v.to_string is None:
                continue     # how a raw identifier is spelled is not pinned by the property; only the round trip is
            body += "    vmon::names::check_set(m, \"serializations\", \"get_serializations\", %s, strum::EnumMessage::get_serializations(&%s), %s, %s);\n" % (
                rs_str(v.ident), v.ctor(spec.path(), v.default_exprs()), str_slice(model.spellings(v, spec.serialize_all)), "true" if nontrivial[i] else "false")
    else:
        body += "    vmon::names::roundtrip(m, &samples, &make, &printers, &parse, None, %s);\n" % bool_slice(nontrivial)
    body += "}\n"
    return body


def systematic():
    specs = []
    k = 0
    r = gen.rng_for(0, "c02-sys")
    shapes = []
    for style in [None] + model.STYLE_STRINGS:
        for di, ders in enumerate(DERIVE_SETS):
            for aci in (False, True):
                ids = gen.pick_idents(r, 8)
                vs = [
                    Variant(ident=ids[0]),
                    Variant(ident=ids[1], kind="tuple", fields=[Field("u8"), Field("String")]),
                    Variant(ident=ids[2], kind="named", fields=[Field("bool", name="f"), Field("i32", name="x")]),
                    Variant(ident=ids[3], serialize=["one-%d" % k]),
                    Variant(ident=ids[4], kind="tuple", fields=[Field("i64")], serialize=["s", "long-est %d" % k, "mid%d" % (k % 10)]),
                    Variant(ident=ids[5], to_string="To String %d" % k),
                    Variant(ident=ids[6], kind="named", fields=[Field("String", name="s")], to_string="ts%d" % k, serialize=["alias%d" % k, "a%d" % k]),
                    Variant(ident=ids[7], disabled=True),
                ]
                if di % 2 == 0:
                    vs.append(Variant(ident="CatchAll", kind="tuple", fields=[Field("String")], default=True))
                r.shuffle(vs)
                s = EnumSpec(name="S%d" % k, variants=vs, derives=["EnumString"] + ders + ["EnumMessage"], serialize_all=style, aci=aci)
                if not model.overlaps(s):
                    specs.append(s)
                    k += 1
    return specs


def check(run):
    deps, vmon = setup(run, cfgs=("std", "phf"))
    thorough = run.tier == "thorough"
    specs = systematic()
    r = gen.rng_for(run.seed, "c02")
    for i in range(6000 if thorough else 1500):
        ders = ["EnumString"] + DERIVE_SETS[i % 4] + (["EnumMessage"] if i % 3 else [])
        gp = (None, None, "T", "N", "Tw", "Tdef", "Tnd", "NT") if "IntoStaticStr" in ders else (None, None, "T", "a", "aT", "N", "Tw", "TNdef", "Tnd", "NT")
        specs.append(strgen.build(r, "R%d" % i, ders, generics_pool=gp, n=(40 if i in (5, 6) else r.choice([1, 2, 3, 4, 5, 6, 8])), allow_braces=True, raw_bare=True))
    units = [shards.Unit("u_" + s.name.lower(), glue(s), meta={"enum_src": s.render(), "bare_src": s.render_bare()}, sig=s.signature(), head=strgen.CAPTURE_HEAD) for s in specs]
    run.rule = RULE
    samples = standard_flow(run, units, deps["std"], vmon, profiles=("debug",), tag="c02")
    # the same round trip through the use_phf parser (field-less enums, strum built with the phf feature)
    pspecs = []
    for i in range(1200 if thorough else 200):
        ps = strgen.build(r, "P%d" % i, ["EnumString"] + DERIVE_SETS[i % 4] + ["EnumMessage"], fieldless=True, allow_default=False,
                          n=r.choice([2, 3, 4, 6, 8]), naming_bias=0.8, allow_braces=True)
        ps.use_phf = True
        pspecs.append(ps)
    punits = [shards.Unit("u_" + s.name.lower(), glue(s), meta={"enum_src": s.render(), "bare_src": s.render_bare()}, sig="phf," + s.signature(), head=strgen.CAPTURE_HEAD) for s in pspecs]
    samples.update(standard_flow(run, punits, deps["phf"], vmon, profiles=("debug",), tag="c02p"))
    units = units + punits
    pick_samples(run, samples, {u.name: u for u in units})
    run.extra["programs"] = len(units)
    run.assumptions = ["derive(Debug)/derive(PartialEq)/derive(Clone) of std are correct", "generator renders the EnumSpec faithfully"]
