"""C11 — default and transparent variants capture and forward their inner value verbatim."""
from .common import *
from .. import strgen
from . import c18

RULE = ("programs A (default): random EnumString+Display enums of C01's domain that contain a default variant in tuple or "
        "single-named-field form (inner String / Box<str> / a From<&str> newtype; with and without serialize aliases, never "
        "to_string) among ordinary and case-insensitive variants; inputs: C01's hostile classes; oracle: captured value == input "
        "byte for byte (reference parser decides which inputs are unclaimed), from_str(s)?.to_string() == s, and the format-spec "
        "grid applied to the captured value equals the grid applied to s. programs B (transparent): enums with transparent tuple "
        "and single-named-field variants (field names incl. `f`) over inner u8/i64/f64/char/String/&'static str/Box<str>/nested "
        "derived enum, deriving Display (+AsRefStr, +IntoStaticStr); oracle: format!(spec, v) == format!(spec, inner) for the "
        "whole grid incl. +/#/0 flags, as_ref()/<&'static str>::from == the inner field's own. non-trivial: all; "
        "distinct = (enum, input | value, spec).")

INNER_HEAD = """
#[derive(Debug, Clone, PartialEq, strum::Display, strum::AsRefStr, strum::IntoStaticStr)]
pub enum InnerName { #[strum(to_string = "in-a")] A, Bee, #[strum(serialize = "sea", serialize = "c")] C(u8) }
"""

# inner type -> (rust type, [value exprs], supports: display, asref, static, numeric flags)
INNERS = {
    "u8": ("u8", ["0u8", "7u8", "255u8"], (True, False, False)),
    "i64": ("i64", ["0i64", "-42i64", "i64::MIN"], (True, False, False)),
    "f64": ("f64", ["0.0f64", "-1.5f64", "3.14159f64", "1e10f64"], (True, False, False)),
    "char": ("char", ["'x'", "'é'"], (True, False, False)),
    "String": ("String", ['String::new()', 'String::from("héllo wörld")', 'String::from("a")'], (True, True, False)),
    "BoxStr": ("Box<str>", ['Box::<str>::from("boxed")'], (True, True, False)),
    "StaticStr": ("&'static str", ['"static"', '""', '"日本"'], (True, True, True)),
    "Inner": ("InnerName", ["InnerName::A", "InnerName::Bee", "InnerName::C(3)"], (True, True, True)),
    "Captured": ("Captured", ['Captured(String::from("cap"))'], (True, False, False)),
}


def build_transparent(r, name, level):
    """level 0: Display; 1: Display+AsRefStr; 2: Display+AsRefStr+IntoStaticStr"""
    ders = [["Display"], ["Display", "AsRefStr"], ["Display", "AsRefStr", "IntoStaticStr"]][level]
    ok = [k for k, (_, _, sup) in INNERS.items() if all(sup[:level + 1])]
    n = r.choice([1, 2, 3, 4, 5])
    idents = gen.pick_idents(r, n + 2)
    items = []   # (variant source lines, ident, kind, field name, inner key) for transparent; plain ones too
    lines = []
    tv = []
    have_default = False
    for i in range(n):
        key = r.choice(ok)
        if r.random() < 0.5:
            decl = "%s(%s)" % (idents[i], INNERS[key][0])
            fname = None
        else:
            fname = r.choice(["f", "s", "x", "inner", "field0", "value"])
            decl = "%s { %s: %s }" % (idents[i], fname, INNERS[key][0])
        attr = r.choice(["#[strum(transparent)]", "#[strum(transparent)]", "#[strum(transparent, serialize = \"ignored\")]",
                         "#[strum(transparent, to_string = \"ignored-ts\")]", "#[strum(to_string = \"ts\")]\n    #[strum(transparent)]"])
        if not have_default and r.random() < 0.2:
            # `default` next to `transparent` on the same variant: both ask for the inner value, transparent still applies
            have_default = True
            attr = r.choice(["#[strum(transparent, default)]", "#[strum(default, transparent)]", "#[strum(default)]\n    #[strum(transparent)]"])
        lines.append("    %s\n    %s," % (attr, decl))
        tv.append((idents[i], fname, key))
    lines.insert(r.randint(0, len(lines)), "    %s," % idents[n])
    if r.random() < 0.5:
        # a disabled sibling makes the derives emit their catch-all panic arm; it must not swallow the transparent arms
        lines.insert(r.randint(0, len(lines)), "    #[strum(disabled)]\n    Disabled%s%s," % (name, r.choice(["", "(u8)", " { x: u8 }"])))
    lines.insert(r.randint(0, len(lines)), "    #[strum(to_string = \"fixed\")]\n    %s(u8)," % idents[n + 1])
    style = r.choice([None, "snake_case", "UPPERCASE"])
    src = "#[derive(Debug, Clone, %s)]\n" % ", ".join("strum::" + d for d in ders)
    if style:
        src += "#[strum(serialize_all = %s)]\n" % rs_str(style)
    pref = r.choice([None, None, "pfx/"])
    if pref:
        src += "#[strum(prefix = %s)]\n" % rs_str(pref)
    src += "pub enum %s {\n%s\n}\n" % (name, "\n".join(lines))
    body = src + "pub fn drive(m: &mut vmon::Mon) {\n"
    for ident, fname, key in tv:
        for vi, val in enumerate(INNERS[key][1]):
            ctor = "%s::%s(%s)" % (name, ident, val) if fname is None else "%s::%s { %s: %s }" % (name, ident, fname, val)
            body += "    { let inner: %s = %s; let e: %s = %s; let subj = format!(\"{:?}\", e);\n" % (INNERS[key][0], val, name, ctor)
            body += "      vmon::fmt::fmt_grid(m, \"transparent-fmt\", &subj, &e, &inner, %d, %d, true);\n" % ((16, 8) if vi == 0 else (6, 3))
            body += "      m.expect_str(\"transparent\", \"to_string()\", &subj, &e.to_string(), &inner.to_string(), true);\n"
            if level >= 1:
                body += "      { let a: &str = e.as_ref(); let b: &str = inner.as_ref(); m.expect_str(\"transparent\", \"as_ref()\", &subj, a, b, true); }\n"
            if level >= 2:
                if key == "StaticStr":
                    body += "      { let a: &'static str = (&e).into(); m.expect_str(\"transparent\", \"<&'static str>::from(&v)\", &subj, a, inner, true); }\n"
                    body += "      { let a: &'static str = e.clone().into(); m.expect_str(\"transparent\", \"<&'static str>::from(v)\", &subj, a, inner, true); }\n"
                else:
                    body += "      { let a: &'static str = (&e).into(); let b: &'static str = (&inner).into(); m.expect_str(\"transparent\", \"<&'static str>::from(&v)\", &subj, a, b, true); }\n"
                    body += "      { let a: &'static str = e.clone().into(); let b: &'static str = inner.clone().into(); m.expect_str(\"transparent\", \"<&'static str>::from(v)\", &subj, a, b, true); }\n"
            body += "    }\n"
    body += "}\n"
    return body, src


def glue_default(spec):
    body = strgen.default_with_fns(spec) + "\n" + spec.render() + "\n"
    body += "pub fn drive(m: &mut vmon::Mon) {\n"
    body += strgen.parse_glue(spec, extra=strgen.recased_extras(spec)).replace("vmon::parse::drive_parse(", "vmon::parse::drive_capture(") + "\n"
    body += "}\n"
    return body


def check(run):
    deps, vmon = setup(run, cfgs=("std", "phf"))
    thorough = run.tier == "thorough"
    r = gen.rng_for(run.seed, "c11")
    units = []
    want = 2000 if thorough else 300
    i = 0
    while len(units) < want:
        i += 1
        s = strgen.build(r, "D%d" % i, ["EnumString", "Display"], n=r.choice([1, 2, 3, 4, 6]), generics_pool=(None, None, "T", "N", "NT", "Tnd"), allow_prefix=True)
        dv = [v for v in s.variants if v.default and not v.disabled]
        if not dv:
            # force one
            v = Variant(ident="CatchAll%d" % i, kind=r.choice(["tuple", "named"]), default=True)
            ct = r.choice(strgen.CAPTURE_TYPES)
            v.fields = [Field(ty=ct)] if v.kind == "tuple" else [Field(ty=ct, name=r.choice(["f", "s", "x", "inner", "field0"]))]
            if r.random() < 0.3:
                v.serialize = ["catch-alias-%d" % i]
            s.variants.insert(r.randint(0, len(s.variants)), v)
        for v in s.variants:
            if v.default:
                v.to_string = None
            if v.to_string and ("{" in v.to_string):
                v.to_string = None
        if model.overlaps(s):
            continue
        if r.random() < 0.15:
            s.parse_err = ("MyErr", "my_err")     # custom error attributes must not stop the catch-all from capturing
        units.append(shards.Unit("u_" + s.name.lower(), glue_default(s), meta={"enum_src": s.render(), "bare_src": s.render_bare()}, sig="default," + s.signature(), head=(strgen.CAPTURE_HEAD, c18.ERR_HEAD)))
    # the same capture through the use_phf parser (field-less siblings, strum built with the phf feature)
    punits = []
    j = 0
    while len(punits) < (300 if thorough else 60):
        j += 1
        s = strgen.build(r, "PD%d" % j, ["EnumString", "Display"], n=r.choice([1, 2, 3, 5]), fieldless=True, allow_prefix=True, capture_types=["String", "BoxStr"])
        if not any(v.default and not v.disabled for v in s.variants):
            continue
        for v in s.variants:
            if v.default:
                v.to_string = None
        s.use_phf = True
        if model.overlaps(s):
            continue
        punits.append(shards.Unit("u_" + s.name.lower(), glue_default(s), meta={"enum_src": s.render(), "bare_src": s.render_bare()}, sig="default,phf," + s.signature(), head=(strgen.CAPTURE_HEAD, c18.ERR_HEAD)))
    tunits = []
    for j in range(2000 if thorough else 360):
        body, src = build_transparent(r, "T%d" % j, j % 3)
        tunits.append(shards.Unit("u_t%d" % j, body, meta={"enum_src": src}, sig="transparent,level=%d" % (j % 3), head=(strgen.CAPTURE_HEAD, INNER_HEAD)))
    run.rule = RULE
    allu = units + tunits
    samples = standard_flow(run, allu, deps["std"], vmon, profiles=("fast",), tag="c11")
    samples.update(standard_flow(run, punits, deps["phf"], vmon, profiles=("fast",), tag="c11p"))
    allu = allu + punits
    pick_samples(run, samples, {u.name: u for u in allu})
    run.extra["programs"] = len(allu)
    run.extra["default_enums"] = len(units)
    run.extra["transparent_enums"] = len(tunits)
    run.assumptions = ["std formatting of the inner value is the reference", "derive(Debug)/derive(PartialEq) of std are correct"]
