"""C19 — generated code depends only on ::core and on the configured strum path."""
import copy
from .common import *
from .. import strgen
from . import c17

RULE = ("programs: three enum families covering all 15 non-deprecated derives and their attribute-dependent template arms "
        "(field-less: all 15 derives; data-carrying with type/const generics: 13 derives incl. Display interpolation on tuple and "
        "named variants, default / default_with / transparent variants, props, messages, docs, discriminants; lifetime family), "
        "core-only payload types. Each program is compiled (direct rustc, --emit=metadata) under: (d) std baseline; (a) #![no_std] "
        "library without alloc against strum built with default-features = false; (b) strum reachable only as `--extern renamed` "
        "with #[strum(crate = \"renamed\")], through a nested re-export path and through a single-identifier local `use` alias; (c) local `mod core {}` / `mod std {}` beside the "
        "enum. oracle (differential): what compiles under (d) compiles under (a), (b), (c); and (b'): without crate= the renamed "
        "build must FAIL for every trait-emitting derive (so the configuration really exposes a hard-coded ::strum). "
        "non-trivial: all; distinct = (program, configuration).")

CORE_TYPES = ["u8", "i32", "bool", "char", "OptU8", "Unit", "Tup", "i64", "u16", "StaticStr"]
TYPES.setdefault("StaticStr", ("&'static str", '""', ['"st"', '"日本"']))
TYPES.setdefault("FixBuf", ("FixBuf", "FixBuf::default()", ['FixBuf::from("cap")']))

CORE_HEAD = """
#[derive(Debug, PartialEq, Clone, Copy, Default)]
pub struct FixBuf { pub len: usize, pub buf: [u8; 16] }
impl<'a> From<&'a str> for FixBuf {
    fn from(s: &'a str) -> Self { let mut b = FixBuf::default(); let n = if s.len() < 16 { s.len() } else { 16 }; let mut i = 0; while i < n { b.buf[i] = s.as_bytes()[i]; i += 1; } b.len = n; b }
}
impl ::core::fmt::Display for FixBuf {
    fn fmt(&self, f: &mut ::core::fmt::Formatter) -> ::core::fmt::Result { match ::core::str::from_utf8(&self.buf[..self.len]) { Ok(s) => ::core::fmt::Display::fmt(s, f), Err(_) => Err(::core::fmt::Error) } }
}
#[derive(Debug, PartialEq, Clone, Default)]
pub struct CG<const N: usize>(pub u8);
#[derive(Debug, PartialEq, Clone, Copy)]
pub struct PErr(pub usize);
pub fn perr(s: &str) -> PErr { PErr(s.len()) }
pub fn dw_u8() -> u8 { 7 }
pub fn dw_i32() -> i32 { -3 }
pub fn dw_bool() -> bool { true }
"""

ALL15 = ["EnumString", "AsRefStr", "VariantNames", "VariantArray", "IntoStaticStr", "Display", "EnumIter", "EnumIs", "EnumTryAs",
         "EnumTable", "FromRepr", "EnumMessage", "EnumProperty", "EnumDiscriminants", "EnumCount"]
DATA13 = [d for d in ALL15 if d not in ("VariantArray", "EnumTable")]
LIFE10 = [d for d in DATA13 if d not in ("EnumIter", "FromRepr")] 
TRAIT_DERIVES = ["EnumString", "EnumIter", "EnumCount", "VariantNames", "VariantArray", "EnumMessage", "EnumProperty", "EnumDiscriminants"]


def decorate_common(r, spec, data):
    """Attributes consumed by the various derives."""
    from . import c14, c15
    c14.decorate(r, spec)
    for v in spec.variants:
        if r.random() < 0.4:
            v.props = [[(r.choice(c15.KEYS[:18]), "str", "v"), ("n", "int", r.choice([1, -5, 2**40])), ("b", "bool", True)][: r.randint(1, 3)]]
    if r.random() < 0.5:
        spec.extra_enum_attrs.append("#[strum_discriminants(name(%sKind), derive({STRUM}::EnumIter, {STRUM}::Display, Hash){CRATE_PASS})]" % spec.name)
    return spec


def fam_fieldless(r, name):
    s = strgen.build(r, name, list(ALL15), n=r.choice([1, 2, 3, 5, 8]), fieldless=True, allow_default=False, allow_prefix=True, uni=True,
                     distinct_lengths=True, dup_within_variant=False, avoid_snake_collisions=True)
    for v in s.variants:
        if "{" in "".join(v.serialize + [v.to_string or ""]):
            v.serialize, v.to_string = [], None
    if not any(not v.disabled for v in s.variants):
        s.variants[0].disabled = False
    s.std_derives = ["Debug", "PartialEq", "Clone", "Copy"]
    s.const_into_str = r.random() < 0.4
    if r.random() < 0.5:
        s.repr = r.choice(["u8", "i16", "u32", "isize"])
        prev = None
        for v in s.variants:
            if r.random() < 0.4:
                val = (prev if prev is not None else 0) + r.randint(1, 4)
                v.disc = (str(val), val)
            else:
                val = 0 if prev is None else prev + 1
            prev = val
    return decorate_common(r, s, False)


def fam_data(r, name, lifetimes=False):
    ders = list(LIFE10 if lifetimes else DATA13)
    g = r.choice(["a", "aT"]) if lifetimes else r.choice([None, None, "T", "N", "TN", "Tw"])
    n = r.choice([1, 2, 3, 4, 6])
    idents = gen.pick_idents(r, n + 3, avoid_snake_collisions=True)
    vs = []
    for i in range(n):
        kind = r.choice(["unit", "tuple", "named"])
        x = r.random()
        if kind != "unit" and x < 0.3:
            v = c17.placeholder_variant(r, idents[i], kind)
            for f in v.fields:     # core-only payloads
                if f.ty in ("String", "F64"):
                    f.ty = "u8"
            # re-render literal specs for the possibly changed types: keep it simple, plain placeholders
            if v.kind == "tuple":
                v.to_string = "/".join("{%d}" % k for k in reversed(range(len(v.fields)))) + " {{t}}"
            else:
                v.to_string = "-".join("{%s}" % f.name for f in v.fields[: max(1, len(v.fields) - 1)]) + " {{n}}"
        else:
            v = Variant(ident=idents[i], kind=kind, fields=gen.rand_fields(r, kind, nmax=3, types=CORE_TYPES, generics=g))
            if x < 0.5:
                v.serialize = ["ser-%d" % i, "s%d" % i][: r.randint(1, 2)]
            elif x < 0.65:
                v.to_string = "to string %d" % i
            if kind == "tuple" and len(v.fields) == 1 and v.fields[0].ty in ("u8", "i32", "bool") and r.random() < 0.5:
                v.default_with = "dw_" + v.fields[0].ty
                v.dw_expr = "0"
            if kind == "named":
                for f in v.fields:
                    if f.ty in ("u8", "i32", "bool") and r.random() < 0.4:
                        f.default_with = "dw_" + f.ty
                        f.dw_expr = "0"
        v.disabled = r.random() < 0.12
        if r.random() < 0.2:
            v.aci = r.random() < 0.7
        vs.append(v)
    # default variant (FixBuf) in tuple or named form
    if r.random() < 0.6:
        dv = Variant(ident=idents[n], default=True, kind=r.choice(["tuple", "named"]))
        dv.fields = [Field(ty="FixBuf")] if dv.kind == "tuple" else [Field(ty="FixBuf", name=r.choice(["f", "s", "inner"]))]
        vs.insert(r.randint(0, len(vs)), dv)
    spec = EnumSpec(name=name, variants=vs, derives=ders, generics=g, serialize_all=r.choice([None, "snake_case", "SCREAMING-KEBAB-CASE", "title_case", "camelCase"]),
                    aci=r.random() < 0.3, prefix=r.choice([None, None, "p/"]), std_derives=["Debug", "PartialEq", "Clone"])
    # transparent variant (only when EnumString's view of it is harmless): inner &'static str
    if r.random() < 0.5 and not spec.const_into_str:
        tv = Variant(ident=idents[n + 1], transparent=True, kind=r.choice(["tuple", "named"]))
        tv.fields = [Field(ty="StaticStr")] if tv.kind == "tuple" else [Field(ty="StaticStr", name=r.choice(["f", "x"]))]
        spec.variants.insert(r.randint(0, len(spec.variants)), tv)
    gen.ensure_generics_used(r, spec)
    # carrier may carry &'a str: fine.  Discriminant values: only with repr
    if not lifetimes and r.random() < 0.4:
        spec.repr = r.choice(["u8", "u16", "i32"])
        prev = None
        for v in spec.variants:
            if r.random() < 0.3:
                val = (prev if prev is not None else 0) + r.randint(1, 3)
                v.disc = (str(val), val)
            else:
                val = 0 if prev is None else prev + 1
            prev = val
    names = [model.snakify(v.ident) for v in spec.variants]
    if len(set(names)) != len(names) or model.overlaps(spec):
        return None
    if not any(v.default and not v.disabled for v in spec.variants) and r.random() < 0.5:
        spec.parse_err = ("{ROOT}PErr", "{ROOT}perr")
    return decorate_common(r, spec, True)


CONFIGS = ["d_std", "a_nostd", "b_renamed", "b_nested", "b_alias", "b_abs", "c_shadow"]


def render(spec, cfg):
    s = copy.deepcopy(spec)
    strum = "strum"
    crate_pass = ""
    if cfg == "b_renamed":
        strum = "renamed"
        s.crate_path = "renamed"
        crate_pass = ", strum(crate = \"renamed\")"
    elif cfg == "b_nested":
        strum = "crate::reexp::strum_alias"
        s.crate_path = "crate::reexp::strum_alias"
        crate_pass = ", strum(crate = \"crate::reexp::strum_alias\")"
    elif cfg == "b_abs":
        # an absolute path (`::renamed`) must stay absolute: a local item called `renamed` must not capture it
        strum = "::renamed"
        s.crate_path = "::renamed"
        crate_pass = ", strum(crate = \"::renamed\")"
    elif cfg == "b_alias":
        # the configured path is a single identifier that is a local `use` alias, not an extern crate name
        strum = "st"
        s.crate_path = "st"
        crate_pass = ", strum(crate = \"st\")"
    elif cfg == "b_nocrate":
        strum = "renamed"
    s.strum_path = strum
    if s.parse_err:
        s.parse_err = tuple(x.replace("{ROOT}", "crate::") for x in s.parse_err)
    s.extra_enum_attrs = [a.replace("{STRUM}", strum).replace("{CRATE_PASS}", crate_pass) for a in s.extra_enum_attrs]
    src = s.render()
    import zlib
    if zlib.crc32(spec.name.encode()) % 3 == 0:
        # a second enum with the same derives in the same module: module-level items a derive emits must not collide
        comp = "#[derive(Debug, Clone, Copy, PartialEq, %s)]\n" % ", ".join("%s::%s" % (strum, d) for d in s.derives)
        if s.crate_path:
            comp += "#[strum(crate = %s)]\n" % rs_str(s.crate_path)
        src += "\n" + comp + "pub enum Companion%s { First, #[strum(disabled)] Off, Last }\n" % spec.name
    if cfg == "c_shadow":
        src = "mod core {}\nmod std {}\nmod alloc {}\nmod strum_macros {}\n" + src
    if cfg == "b_abs":
        src = "mod renamed {}\n" + src
    return "pub mod m_%s {\n    use super::*;\n%s\n}\n" % (spec.name.lower(), src)


def head_for(cfg):
    h = "#![allow(warnings, unused, non_camel_case_types, non_snake_case, non_upper_case_globals, deprecated)]\n"
    if cfg == "a_nostd":
        h = "#![no_std]\n" + h
    if cfg == "b_nested":
        h += "pub mod reexp { pub use renamed as strum_alias; }\n"
    if cfg == "b_alias":
        h += "use renamed as st;\n"
    return h + CORE_HEAD


def compile_cfg(run, specs, cfg, deps):
    """Returns {name: None | diagnostic summary}."""
    extern = "renamed" if cfg.startswith("b_") else "strum"
    groups = [specs[i::core.NCPU] for i in range(core.NCPU)]
    groups = [g for g in groups if g]
    results = {}

    def build(job):
        gi, g = job
        head = head_for(cfg)
        src = head
        ranges = {}
        line = src.count("\n") + 1
        for s in g:
            ms = render(s, cfg)
            n = ms.count("\n")
            ranges[s.name] = (line, line + n)
            src += ms
            line += n
        p = run.path("c19_%s_%d.rs" % (cfg, gi))
        open(p, "w").write(src)
        c = core.rustc(p, run.path("c19_%s_%d.rmeta" % (cfg, gi)), deps, crate_type="lib", extern_name=extern, extra=["--emit=metadata"])
        return g, c, ranges

    singles = []
    for g, c, ranges in core.pmap(build, list(enumerate(groups))):
        if c.ok:
            for s in g:
                results[s.name] = None
            continue
        sus = set()
        for d in c.errors():
            for (_f, l0, _l1) in d["lines"]:
                if l0 is None:
                    continue
                for s in g:
                    a, b = ranges[s.name]
                    if a <= l0 <= b:
                        sus.add(s.name)
        cand = [s for s in g if s.name in sus] or list(g)
        for s in g:
            if s not in cand:
                results[s.name] = None   # provisional; verified below with the rest
        singles += cand
        rest = [s for s in g if s not in cand]
        if rest:
            singles += []   # the rest compiled together with failing ones; re-check them as a group
            singles.append(("group", rest))

    def single(item):
        if isinstance(item, tuple):
            _, rest = item
            src = head_for(cfg) + "".join(render(s, cfg) for s in rest)
            p = run.path("c19_%s_rest_%s.rs" % (cfg, rest[0].name))
            open(p, "w").write(src)
            c = core.rustc(p, p[:-3] + ".rmeta", deps, crate_type="lib", extern_name=extern, extra=["--emit=metadata"])
            return item, c, src
        src = head_for(cfg) + render(item, cfg)
        p = run.path("c19_%s_single_%s.rs" % (cfg, item.name))
        open(p, "w").write(src)
        c = core.rustc(p, p[:-3] + ".rmeta", deps, crate_type="lib", extern_name=extern, extra=["--emit=metadata"])
        return item, c, src

    again = []
    for item, c, src in core.pmap(single, singles):
        if isinstance(item, tuple):
            if c.ok:
                for s in item[1]:
                    results[s.name] = None
            else:
                again += item[1]
        else:
            results[item.name] = None if c.ok else (shards.diag_summary(c), src, [d["rendered"] for d in c.errors()[:3]], deps.cfg)
    for item, c, src in core.pmap(single, again):
        results[item.name] = None if c.ok else (shards.diag_summary(c), src, [d["rendered"] for d in c.errors()[:3]], deps.cfg)
    return results


def fam_phf(r, name):
    s = strgen.build(r, name, ["EnumString", "EnumCount", "VariantNames"], n=r.choice([1, 2, 4, 7]), fieldless=True, uni=True, capture_types=["FixBuf"])
    s.use_phf = True
    s.std_derives = ["Debug", "PartialEq", "Clone"]
    s.tags = ["phf"]
    return s


def check(run):
    deps, vmon = setup(run, cfgs=("std", "nostd", "phf"))
    thorough = run.tier == "thorough"
    r = gen.rng_for(run.seed, "c19")
    specs = []
    k = 0
    want = 3000 if thorough else 600
    while len(specs) < want:
        k += 1
        fam = k % 4
        s = fam_fieldless(r, "F%d" % k) if fam == 0 else fam_data(r, "D%d" % k, lifetimes=(fam == 3))
        if s is not None:
            specs.append(s)
    # every derive also as the ONLY strum derive of an enum that carries #[strum(crate = ..)] and the usual variant attributes:
    # each derive has to register the `strum` helper attribute and honour the configured path on its own
    r2 = gen.rng_for(run.seed, "c19-solo")
    for rep in range(3 if thorough else 1):
        for d in ALL15:
            k += 1
            s = fam_fieldless(r2, "S%d" % k)
            s.derives = [d]
            if d != "EnumDiscriminants":
                s.extra_enum_attrs = [a for a in s.extra_enum_attrs if "strum_discriminants" not in a]
            s.tags = ["solo-" + d]
            specs.append(s)
    run.rule = RULE
    # use_phf arm: needs strum's phf feature, so it is compiled against the phf build under every configuration except no_std
    pspecs = [fam_phf(r, "P%d" % i) for i in range(200 if thorough else 40)]
    res = {}
    for cfg in CONFIGS:
        res[cfg] = compile_cfg(run, specs, cfg, deps["nostd"] if cfg == "a_nostd" else deps["std"])
        if cfg != "a_nostd":
            res[cfg].update(compile_cfg(run, pspecs, cfg, deps["phf"]))
        else:
            res[cfg].update({p.name: "skipped" for p in pspecs})
    specs = specs + pspecs
    base_bad = [n for n, v in res["d_std"].items() if v is not None]
    for n in base_bad:
        run.count("baseline-rejected")
    if len(base_bad) > len(specs) // 3:
        raise core.Inconclusive("more than a third of the corpus does not compile under the std baseline: " + str(res["d_std"][base_bad[0]][0])[:500])
    by_name = {s.name: s for s in specs}
    for cfg in CONFIGS[1:]:
        for s in specs:
            if res["d_std"][s.name] is not None:
                continue
            v = res[cfg].get(s.name)
            if v == "skipped":
                continue
            run.evaluations += 1
            run.distinct += 1
            run.count("compiled/%s" % cfg)
            if v is not None:
                summ, src, rendered, dcfg = v
                run.violation("nostd-path:%s:%s" % (cfg, shards.norm_msg(summ)),
                              "enum %s compiles under the std baseline but not under configuration %s: %s" % (s.name, cfg, summ),
                              detail={"config": cfg, "enum": by_name[s.name].render(), "diagnostics": rendered}, replay_src=src,
                              replay_meta={"kind": "compile", "config": cfg, "deps": dcfg})
    for s in specs:
        if res["d_std"][s.name] is not None:
            # a corpus program the baseline itself rejects is a violation of whichever property owns that derive; report it here too
            summ, src, rendered, dcfg = res["d_std"][s.name]
            run.violation("baseline:%s" % shards.norm_msg(summ), "corpus enum %s does not compile under the std baseline: %s" % (s.name, summ),
                          detail={"enum": s.render(), "diagnostics": rendered}, replay_src=src, replay_meta={"kind": "compile", "config": "d_std", "deps": dcfg})
    # sanity of configuration (a): strum built with default-features = false must really be a no_std crate
    # (its std-only `impl std::error::Error for ParseError` must not exist)
    psrc = "fn needs_error<T: std::error::Error>() {}\nfn main() { needs_error::<strum::ParseError>(); }\n"
    pp = run.path("c19_nostd_probe.rs")
    open(pp, "w").write(psrc)
    pc = core.rustc(pp, run.path("c19_nostd_probe.bin"), deps["nostd"])
    run.evaluations += 1
    run.distinct += 1
    run.count("nostd-runtime-probe")
    if pc.ok:
        run.violation("nostd:runtime-crate-links-std", "strum built with default-features = false, features = [derive] still enables its std feature "
                      "(std::error::Error is implemented for ParseError)", replay_src=psrc, replay_meta={"kind": "compile-fail", "deps": "nostd"})
    # sanity of configuration (b): without crate= the renamed build must fail for trait-emitting derives
    probe = [s for s in specs if res["d_std"][s.name] is None][:24]
    nocrate = compile_cfg(run, probe, "b_nocrate", deps["std"])
    exposed = sum(1 for s in probe if nocrate[s.name] is not None)
    run.extra["renamed_without_crate_attr_rejected"] = "%d/%d" % (exposed, len(probe))
    if probe and exposed != len(probe):
        raise core.Inconclusive("configuration (b) does not expose a hard-coded ::strum: %d/%d probes still compile" % (len(probe) - exposed, len(probe)))
    run.extra["programs"] = len(specs)
    run.extra["configurations"] = CONFIGS
    fams = {"field-less/15 derives": 0, "data/13 derives": 0, "lifetime/11 derives": 0, "single derive": 0}
    for s in specs:
        fams["single derive" if s.name.startswith("S") else "field-less/15 derives" if s.name.startswith("F") else ("lifetime/11 derives" if s.generics in ("a", "aT") else "data/13 derives")] += 1
    run.extra["families"] = fams
    for s in specs[:6]:
        run.samples.append({"enum": s.render(), "observed": {cfg: ("compiles" if res[cfg][s.name] is None else ("not compiled (phf needs std)" if res[cfg][s.name] == "skipped" else "rejected")) for cfg in CONFIGS}})
    run.assumptions = ["rustc name resolution is the judge of which crates a program depends on", "core-only payload types in the corpus",
                       "deprecated derives (ToString, AsStaticStr, EnumVariantNames) excluded as the property states"]
