"""C04 — EnumIter yields every enabled variant exactly once, in declaration order."""
from .common import *

RULE = ("programs: one enum per (variant count n, disabled mask) for all masks with n <= NMAX, kinds cycling through "
        "unit/tuple/named, plus generic (type/const) and seeded random enums (sizes up to 300); events: collect, "
        "rev().collect, next_back loop, COUNT, count(), len() each compared with the model list. non-trivial: the enum "
        "has a disabled or a data-carrying variant; distinct = (enum, api).")


def build_enum(r, name, n, mask, generics=None, kinds=None):
    idents = gen.pick_idents(r, n)
    vs = []
    for i in range(n):
        kind = kinds[i % len(kinds)] if kinds else r.choice(["unit", "tuple", "named"])
        v = Variant(ident=idents[i], kind=kind, fields=gen.rand_fields(r, kind, generics=generics), disabled=bool(mask[i]))
        if v.kind != "unit" and not v.fields and v.kind == "named":
            pass
        if r.random() < 0.2:
            v.serialize = [r.choice(gen.SPELLINGS_ASCII)]
        v.split_attrs = r.choice([0, 1, 2])
        v.attr_order_seed = r.randint(0, 5)
        vs.append(v)
    spec = EnumSpec(name=name, variants=vs, derives=["EnumIter", "EnumCount"], generics=generics)
    gen.ensure_generics_used(r, spec)
    gen.add_noise(r, spec)
    gen.rawify(r, spec, explicit_names=False)
    gen.maybe_macro_wrap(r, spec)
    for v in spec.variants:
        if v.kind == "tuple" and len(v.fields) == 1 and v.fields[0].ty in ("u8", "i32", "bool", "String") and r.random() < 0.3:
            v.default_with = "noise_default_with"     # consumed by EnumString only; EnumIter must still use Default::default()
    dis = [v for v in spec.variants if v.disabled]
    if dis and r.random() < 0.3:
        r.choice(dis).default = True      # EnumString's catch-all marker on a disabled variant: the variant stays disabled
    en = [v for v in spec.variants if not v.disabled and v.kind != "unit" and len(v.fields) == 1]
    if en and not any(v.default for v in spec.variants) and r.random() < 0.15:
        r.choice(en).default = True       # ... and on an enabled one it does not change what the iterator yields
    return spec


def glue(spec):
    en = spec.enabled()
    nontrivial = any(v.disabled or v.kind != "unit" for v in spec.variants)
    body = spec.render() + "\n"
    body += "pub fn drive(m: &mut vmon::Mon) {\n"
    body += "    " + make_fn(spec, en) + "\n"
    body += "    let mk = || <%s as strum::IntoEnumIterator>::iter();\n" % spec.ty()
    body += "    vmon::iter::check_list(m, &mk, %d, &make, <%s as strum::EnumCount>::COUNT, %s);\n" % (
        len(en), spec.ty(), "true" if nontrivial else "false")
    # the same list seen through clones, both ends and adapters (cheap depth-2 lock-step exploration)
    if len(en) <= 12:
        body += "    vmon::iter::explore(m, &mk, %d, &make, 2, 20, \"debug\");\n" % len(en)
        body += "    vmon::iter::adapters(m, &mk, %d, &make, \"debug\");\n" % len(en)
    body += "}\n"
    return body


def corpus(run):
    thorough = run.tier == "thorough"
    nmax = 10 if thorough else 6
    specs = []
    k = 0
    r0 = gen.rng_for(0, "c04-sys")
    for n in range(0, nmax + 1):
        masks = gen.all_masks(n)
        for mi, mask in enumerate(masks):
            if n > 7 and not (mi % 3 == 0 or sum(mask) in (1, n - 1, n)):
                continue
            kinds = [["unit"], ["unit", "tuple", "named"], ["tuple", "named", "unit"], ["named", "unit", "tuple"]][(k) % 4]
            specs.append(build_enum(r0, "E%d" % k, n, mask, kinds=kinds))
            k += 1
    # generics x a few masks
    for g in ("T", "Tw", "TU", "N", "TN", "NT", "Tnd"):
        for n in (1, 3, 5):
            for mask in ([False] * n, [True] + [False] * (n - 1), [False] * (n - 1) + [True], [i % 2 == 1 for i in range(n)]):
                specs.append(build_enum(r0, "E%d" % k, n, mask, generics=g))
                k += 1
    # seeded part
    r = gen.rng_for(run.seed, "c04-seeded")
    for _ in range(3000 if thorough else 600):
        n = r.choice([0, 1, 2, 3, 4, 5, 6, 8, 12])
        mask = [r.random() < 0.3 for _ in range(n)]
        specs.append(build_enum(r, "E%d" % k, n, mask, generics=r.choice([None, None, None, "T", "N", "TU", "Tdef", "TNdef", "Tw", "TwU", "TN", "NT", "Tnd"])))
        k += 1
    for n in ([64, 300] if thorough else [64]):
        mask = [r.random() < 0.2 for _ in range(n)]
        specs.append(build_enum(r, "E%d" % k, n, mask))
        k += 1
    return specs


def check(run):
    deps, vmon = setup(run)
    specs = corpus(run)
    units = []
    for s in specs:
        units.append(shards.Unit("u_" + s.name.lower(), glue(s), meta={"enum_src": s.render(), "bare_src": s.render_bare()}, sig=s.signature()))
    run.rule = RULE
    samples = standard_flow(run, units, deps["std"], vmon, profiles=("debug",), tag="c04")
    pick_samples(run, samples, {u.name: u for u in units})
    run.extra["programs"] = len(units)
    run.extra["disabled_masks_exhaustive_up_to_n"] = 7 if run.tier == "thorough" else 6
    run.assumptions = ["rustc/std (derive(Debug), derive(PartialEq), Vec) are correct", "generator renders the EnumSpec faithfully"]
