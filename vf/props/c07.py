"""C07 — each serialize_all style renames identifiers to exactly that documented case."""
import itertools
from .common import *
from .. import strgen

RULE = ("inputs: EVERY valid identifier of length <= L over {a,b,A,B,1,_} (L=4 quick -> 1294 identifiers, L=5 thorough) plus a "
        "dictionary of realistic names (acronyms, digits, double/leading/trailing underscores, non-ASCII letters) x none + all 16 "
        "accepted style strings; identifiers are bucketed into enums so that converted names are pairwise distinct. Every enum "
        "derives VariantNames, Display, AsRefStr, IntoStaticStr, EnumString, EnumMessage; every name is compared with the model "
        "conversion through VARIANTS[i], to_string(), as_ref(), <&str>::from, get_serializations(); from_str(expected) must "
        "return the variant; raw identifiers and the 15 other conversions are parsed and compared with the reference parser; "
        "two variants per enum carry explicit serialize/to_string and must not be re-cased. non-trivial: a style is selected; "
        "distinct = (identifier, style, api).")

DICT = [
    "Red", "DarkBlack", "HTTPServer", "XMLHttpRequest", "Utf8", "Sha256Sum", "V2", "Hello2You", "TLSv13", "Vec3D", "ABC", "IOError",
    "Snake_Case", "mixed_Case_name", "lower", "UPPER", "Trailing_", "__Dunder", "X1", "Point3d", "MyURLParser", "ID2", "NotFound404",
    "Alpha1Beta2", "OneTwoThree", "Web2Print", "BGRA", "ToDo", "camelCase", "snake_case_name", "SCREAMING_SNAKE", "Train_Case", "a1",
    "A1b2C3", "HTTP2Server", "Ipv4Addr6", "i18n", "Base64Url", "_Hidden", "__a1B__", "x", "Z", "aB", "Ab", "AB", "aBC", "ABc", "AbC",
    "Double__Underscore", "Three___Underscores", "Ends1", "N1N2", "A_B_C", "a_b_c", "ABCDef", "ABCdEF", "Café", "Über", "ÉCOLE", "straße",
    "Ñandú", "Σigma", "ΑΒΓdelta", "XÆA12", "R2D2", "C3PO", "OAuth2Token", "JSONWebToken", "GetHTTPResponseCode", "IPhone", "EBay",
    "rustLang", "rrLine2", "r2_d2", "ring_road", "r", "rr", "raw_type", "rType", "Mac10", "Win95OSR2", "A", "B1", "B_1", "B__1", "_1", "_1a", "_a1", "Level99Boss", "PDFLoader", "SimpleXMLParser", "HTMLElement2D",
]


def identifiers(L):
    alpha = "abAB1_"
    out = []
    for n in range(1, L + 1):
        for t in itertools.product(alpha, repeat=n):
            s = "".join(t)
            if s[0] == "1" or s == "_":
                continue
            out.append(s)
    return out


def buckets(idents, style, size, fold=False):
    """Greedy bucketing: converted names pairwise distinct inside an enum (after ASCII folding when
    the enum is going to be case-insensitive)."""
    out = []
    for ident in idents:
        name = model.convert_case(ident, style)
        if fold:
            name = model.fold_ascii(name)
        placed = False
        for b in out:
            if len(b["ids"]) < size and name not in b["names"] and ident not in b["raw"]:
                b["ids"].append(ident)
                b["names"].add(name)
                b["raw"].add(ident)
                placed = True
                break
        if not placed:
            out.append({"ids": [ident], "names": {name, "explicit lit", "ToStr-Lit", "SameAs_IdentName"}, "raw": {ident, "SameAs_IdentName", "ExplicitSer_Name", "explicitToStr"}})
    return [b["ids"] for b in out]


def glue(spec):
    idx = list(range(len(spec.variants)))
    names = [model.canonical(v, spec.serialize_all, None) for v in spec.variants]
    nontrivial = [spec.serialize_all is not None] * len(spec.variants)
    body = spec.render() + "\n"
    body += "pub fn drive(m: &mut vmon::Mon) {\n"
    body += "    " + samples_vec(spec, idx, nsamples=0, index_of=lambda i: i) + "\n"
    body += printers_code(spec) + "\n"
    body += "    vmon::names::check_names(m, \"cased-name\", &samples, &printers, %s, %s);\n" % (str_slice(names), bool_slice(nontrivial))
    body += "    vmon::names::check_table(m, \"cased-name\", \"VariantNames::VARIANTS\", <%s as strum::VariantNames>::VARIANTS, %s, %s);\n" % (
        spec.ty(), str_slice(names), "true" if spec.serialize_all else "false")
    for i, v in enumerate(spec.variants):
        body += "    vmon::names::check_set(m, \"cased-name\", \"get_serializations\", %s, strum::EnumMessage::get_serializations(&%s), %s, %s);\n" % (
            rs_str(v.ident), v.ctor(spec.path(), v.default_exprs()), str_slice(model.spellings(v, spec.serialize_all)), "true" if spec.serialize_all else "false")
    # parse side: expected names, raw identifiers, other conversions
    extra = []
    seen = set()
    for v in spec.variants:
        cands = [("raw-ident", v.ident)] + [("other-style", model.convert_case(v.ident, st)) for st in model.STYLE_STRINGS]
        for c, s in cands:
            if s not in seen:
                seen.add(s)
                extra.append((c, s))
    body += strgen.parse_glue(spec, extra=extra).replace("vmon::parse::drive_parse(", "vmon::parse::drive_parse_listed(") + "\n"
    body += "}\n"
    return body


def check(run):
    deps, vmon = setup(run)
    thorough = run.tier == "thorough"
    L = 5 if thorough else 4
    ids = identifiers(L)
    r = gen.rng_for(run.seed, "c07")
    specs = []
    k = 0
    total_idents = 0
    for style in [None] + model.STYLE_STRINGS:
        pool = list(ids) + list(DICT)
        # seeded extra identifiers: random longer names over a richer alphabet
        for _ in range(60 if not thorough else 300):
            n = r.randint(5, 12)
            s = "".join(r.choice("abcXYZ019_") for _ in range(n))
            if s[0].isdigit() or s.strip("_") == "" and len(s) == 1:
                s = "Q" + s
            pool.append(s)
        pool = list(dict.fromkeys(pool))
        total_idents = len(pool)
        for b in buckets(pool, style, 48):
            vs = [Variant(ident=i) for i in b]
            # two explicitly named variants that must not be re-cased
            vs.insert(len(vs) // 2, Variant(ident="ExplicitSer_Name", serialize=["explicit lit"]))
            vs.append(Variant(ident="explicitToStr", kind="tuple", fields=[Field("u8")], to_string="ToStr-Lit"))
            vs.insert(1, Variant(ident="SameAs_IdentName", serialize=["SameAs_IdentName"]))    # opting one variant out of the style
            if any(v.ident in ("ExplicitSer_Name", "explicitToStr") for v in vs[:-1] if v.serialize == [] and v.to_string is None and v.ident in b):
                continue
            specs.append(EnumSpec(name="E%d" % k, variants=vs, serialize_all=style,
                                  derives=["VariantNames", "Display", "AsRefStr", "IntoStaticStr", "EnumString", "EnumMessage"]))
            k += 1
        # the same style under ascii_case_insensitive (enum level / variant level): parse side must use the same renamed identifier
        ci_pool = list(DICT) + [i for i in ids if len(i) <= (3 if thorough else 2)]
        for mode in ("enum", "variant"):
            for b in buckets(ci_pool, style, 40, fold=True):
                vs = [Variant(ident=i) for i in b]
                if mode == "variant":
                    for j, v in enumerate(vs):
                        v.aci = [True, None, False][j % 3]
                        v.aci_bare = j % 2 == 0
                sp = EnumSpec(name="E%d" % k, variants=vs, serialize_all=style, aci=(mode == "enum"),
                              derives=["VariantNames", "Display", "AsRefStr", "IntoStaticStr", "EnumString", "EnumMessage"])
                if not model.overlaps(sp):
                    specs.append(sp)
                    k += 1
    units = [shards.Unit("u_" + s.name.lower(), glue(s), meta={"style": s.serialize_all, "enum_src": s.render()[:1500]}, sig="style=%s" % s.serialize_all)
             for s in specs if not model.overlaps(s)]
    run.rule = RULE
    samples = standard_flow(run, units, deps["std"], vmon, profiles=("debug",), tag="c07")
    pick_samples(run, samples, {u.name: u for u in units})
    run.extra["programs"] = len(units)
    run.extra["identifiers_per_style"] = total_idents
    run.extra["exhaustive_identifier_length"] = L
    run.extra["styles"] = [None] + model.STYLE_STRINGS
    run.exhaustive = True
    run.extra["exhaustive_scope"] = "all identifiers of length <= %d over {a,b,A,B,1,_} x all accepted style strings" % L
    run.assumptions = ["word segmentation of the model restates the documented behaviour (underscore, lower->Upper, acronym boundary; digits inherit case class)",
                       "python str.upper()/lower() agree with Rust's to_uppercase()/to_lowercase() on the corpus alphabet"]
