"""C16 — use_phf is a pure optimisation of EnumString."""
import copy
from .common import *
from .. import strgen
from . import c01, c12

RULE = ("programs: field-less Clone enums (optionally with one single-field default variant) from C12's systematic grid and "
        "seeded random generation (mixed/lower/upper/caseless/non-ASCII/empty spellings, case-insensitivity at enum and variant "
        "level, disabled variants, fold-equal aliases on one variant), each rendered twice: plain and with #[strum(use_phf)], both "
        "compiled against strum built with the phf feature. Oracle: the phf twin compiles whenever the plain one does; for every "
        "input of the C01/C12 input set both parsers agree with the reference parser (hence with each other). "
        "non-trivial: input is not a verbatim spelling; distinct = (enum, twin, input).")


def fieldless(spec):
    for v in spec.variants:
        if not v.default:
            v.kind = "unit"
            v.fields = []
            v.default_with = None
    return spec


def check(run):
    deps, vmon = setup(run, cfgs=("phf", "nostdphf"))
    thorough = run.tier == "thorough"
    specs = []
    for s in c12.systematic():
        s = fieldless(s)
        if not model.overlaps(s):
            specs.append(s)
    r = gen.rng_for(run.seed, "c16")
    for i in range(3000 if thorough else 500):
        specs.append(strgen.build(r, "R%d" % i, ["EnumString"], fieldless=True, naming_bias=0.75, max_n=8,
                                  capture_types=["String", "BoxStr"], n=(60 if i in (2, 3) else None)))
    for i, sp in enumerate(specs):
        if i % 7 == 6 and sp.name.startswith("R"):
            strgen.add_overlap(r, sp)      # inputs claimed by two variants are not judged; all others must agree in both twins
    units = []
    spec_by_unit = {}
    pairs = []
    for s in specs:
        p = copy.deepcopy(s)
        p.use_phf = True
        up = shards.Unit("u_" + s.name.lower() + "_plain", c01.glue(s), meta={"enum_src": s.render(), "bare_src": s.render_bare()}, sig="plain," + s.signature(), head=strgen.CAPTURE_HEAD)
        uq = shards.Unit("u_" + s.name.lower() + "_phf", c01.glue(p), meta={"enum_src": p.render(), "bare_src": p.render_bare()}, sig="phf," + s.signature(), head=strgen.CAPTURE_HEAD)
        units += [up, uq]
        spec_by_unit[up.name] = s
        spec_by_unit[uq.name] = p
        pairs.append((up, uq))
    run.rule = RULE
    samples = standard_flow(run, units, deps["phf"], vmon, profiles=("fast",), tag="c16",
                            extra_args=["flipk=%d" % (11 if thorough else 8)])
    # the same twins when strum is only reachable under another name (#[strum(crate = "renamed")]): the phf twin must
    # still compile and agree
    runits = []
    for i in range(150 if thorough else 40):
        s = strgen.build(r, "N%d" % i, ["EnumString"], fieldless=True, naming_bias=0.75, max_n=6, capture_types=["String"])
        s.strum_path = "renamed"
        s.crate_path = "renamed"
        p = copy.deepcopy(s)
        p.use_phf = True
        up = shards.Unit("u_" + s.name.lower() + "_plain", c01.glue(s), meta={"enum_src": s.render(), "bare_src": s.render_bare()}, sig="renamed,plain," + s.signature(), head=strgen.CAPTURE_HEAD)
        uq = shards.Unit("u_" + s.name.lower() + "_phf", c01.glue(p), meta={"enum_src": p.render(), "bare_src": p.render_bare()}, sig="renamed,phf," + s.signature(), head=strgen.CAPTURE_HEAD)
        runits += [up, uq]
        spec_by_unit[up.name] = s
        spec_by_unit[uq.name] = p
    samples.update(standard_flow(run, runits, deps["phf"], vmon, profiles=("fast",), tag="c16r", extern_name="renamed"))
    units = units + runits
    nunits = []
    for i in range(100 if thorough else 24):
        s = strgen.build(r, "Q%d" % i, ["EnumString"], fieldless=True, naming_bias=0.75, max_n=5, capture_types=["String"])
        p = copy.deepcopy(s)
        p.use_phf = True
        for sp_, tag_ in ((s, "plain"), (p, "phf")):
            u = shards.Unit("u_" + sp_.name.lower() + "_" + tag_, c01.glue(sp_), meta={"enum_src": sp_.render(), "bare_src": sp_.render_bare()}, sig="nostd-strum,%s,%s" % (tag_, s.signature()), head=strgen.CAPTURE_HEAD)
            nunits.append(u)
            spec_by_unit[u.name] = sp_
    samples.update(standard_flow(run, nunits, deps["nostdphf"], vmon, profiles=("fast",), tag="c16n"))
    units = units + nunits
    c01.offline_recheck(run, samples, spec_by_unit)
    pick_samples(run, samples, {u.name: u for u in units})
    run.extra["programs"] = len(units)
    run.extra["twin_pairs"] = len(pairs)
    run.assumptions = ["equality of both twins with the same reference parser on the same inputs implies equality with each other",
                       "strum built with features derive+phf from the current tree"]
