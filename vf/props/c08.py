"""C08 — COUNT, VariantNames, VariantArray and EnumIter describe the same variant list."""
from .common import *
from .. import strgen
from . import c03

RULE = ("programs: enums of 0..n variants x generics x explicit discriminants x naming attributes (serialize/to_string/prefix/"
        "serialize_all) x every disabled placement (all masks for n <= 5) - field-less ones also derive VariantArray, Display, "
        "AsRefStr. events: COUNT, iter().count(), iter().collect(), VariantNames::VARIANTS, VariantArray::VARIANTS against the "
        "model lists, and - without disabled variants - position-wise cross checks between the derives themselves "
        "(VariantArray::VARIANTS[i] == iter().nth(i); VariantNames::VARIANTS[i] == VARIANTS[i].to_string() / as_ref()). "
        "non-trivial: enum has a disabled variant, a naming attribute or an explicit discriminant; distinct = (enum, api, index).")


def build(r, name, n, mask, fieldless, generics=None):
    s = strgen.build(r, name, [], n=n, allow_default=False, allow_disabled=False, allow_aci=False, allow_prefix=True,
                     fieldless=fieldless, distinct_lengths=True, generics_pool=(generics,), dup_within_variant=False, allow_default_with=False)
    # apply the disabled mask to the first n declared variants
    for v, d in zip(s.variants, mask):
        v.disabled = bool(d)
    if fieldless and r.random() < 0.5:
        prev = None
        used = set()
        mode = r.choice(["ascending", "unordered", "descending"])
        for v in s.variants:
            nxt = 0 if prev is None else prev + 1
            if r.random() < 0.45 or nxt in used:
                for _ in range(100):
                    if mode == "ascending":
                        val = (prev if prev is not None else r.randint(-4, 2)) + r.randint(1, 5)
                    elif mode == "descending":
                        val = (prev if prev is not None else 90) - r.randint(2, 9)
                    else:
                        val = r.randint(-50, 100)
                    if val not in used and (val + 1) not in used:
                        break
                v.disc = (str(val), val)
            else:
                val = nxt
            used.add(val)
            prev = val
        vals = [d for d in model.discriminants(s)]
        if len(set(vals)) != len(vals):
            for v in s.variants:
                v.disc = None
        if any(v.disc and v.disc[1] < 0 for v in s.variants):
            ds = model.discriminants(s)
            s.repr = r.choice(["i8", "i32", "isize"] if -128 <= min(ds) and max(ds) <= 127 else ["i32", "isize"])
    ders = ["EnumCount", "EnumIter", "VariantNames"]
    if fieldless and not generics:
        ders += ["VariantArray", "Display", "AsRefStr"]
    s.derives = ders
    gen.add_noise(r, s, enum_level=False, skip=("serialize", "std_default"))
    if r.random() < 0.2:
        s.nest = True
        if r.random() < 0.5:
            s.vis = r.choice(["pub(crate)", "pub(super)", "pub(in super::super)"])
    if not fieldless and r.random() < 0.4:
        dv = Variant(ident="CatchAll%s" % name, kind="tuple", fields=[Field(ty="String")], default=True)
        if r.random() < 0.3:
            dv.to_string = "catch-all-%s" % name.lower()
        s.variants.insert(r.randint(0, len(s.variants)), dv)
    return s


def glue(spec):
    en = spec.enabled()
    names = c03.canon_list(spec)
    nontrivial = bool(any(v.disabled or v.serialize or v.to_string is not None or v.disc for v in spec.variants) or spec.prefix is not None or spec.serialize_all)
    nt = "true" if nontrivial else "false"
    ty = spec.ty()
    body = spec.render() + "\n"
    body += "pub fn drive(m: &mut vmon::Mon) {\n"
    body += "    " + make_fn(spec, en) + "\n"
    body += "    let mk = || <%s as strum::IntoEnumIterator>::iter();\n" % ty
    body += "    vmon::iter::check_list(m, &mk, %d, &make, <%s as strum::EnumCount>::COUNT, %s);\n" % (len(en), ty, nt)
    body += "    vmon::names::check_table(m, \"lists\", \"VariantNames::VARIANTS\", <%s as strum::VariantNames>::VARIANTS, %s, %s);\n" % (ty, str_slice(names), nt)
    if "VariantArray" in spec.derives:
        allv = ", ".join(v.ctor(spec.path(), []) for v in spec.variants)
        body += "    let want_all: Vec<%s> = vec![%s];\n" % (ty, allv)
        body += "    let arr: &'static [%s] = <%s as strum::VariantArray>::VARIANTS;\n" % (ty, ty)
        body += "    m.expect_eq(\"lists\", \"VariantArray::VARIANTS\", \"all\", &arr.to_vec(), &want_all, %s);\n" % nt
        body += "    m.expect_eq(\"lists\", \"VariantArray::VARIANTS.len() == VariantNames::VARIANTS.len()\", \"len\", &arr.len(), &<%s as strum::VariantNames>::VARIANTS.len(), %s);\n" % (ty, nt)
        if not any(v.disabled for v in spec.variants):
            body += "    let names = <%s as strum::VariantNames>::VARIANTS;\n" % ty
            body += "    m.expect_eq(\"lists\", \"COUNT == VariantArray::VARIANTS.len()\", \"len\", &<%s as strum::EnumCount>::COUNT, &arr.len(), true);\n" % ty
            body += "    for i in 0..arr.len().min(names.len()) {\n"
            body += "        let subj = format!(\"index {}\", i);\n"
            body += "        m.expect_eq(\"cross\", \"iter().nth(i) == VariantArray::VARIANTS[i]\", &subj, &mk().nth(i), &Some(arr[i].clone()), true);\n"
            body += "        m.expect_str(\"cross\", \"VARIANTS[i].to_string() == VariantNames::VARIANTS[i]\", &subj, &arr[i].to_string(), names[i], true);\n"
            body += "        let ar: &str = arr[i].as_ref();\n"
            body += "        m.expect_str(\"cross\", \"VARIANTS[i].as_ref() == VariantNames::VARIANTS[i]\", &subj, ar, names[i], true);\n"
            body += "    }\n"
    else:
        if not any(v.disabled for v in spec.variants):
            body += "    m.expect_eq(\"cross\", \"COUNT == VariantNames::VARIANTS.len()\", \"len\", &<%s as strum::EnumCount>::COUNT, &<%s as strum::VariantNames>::VARIANTS.len(), true);\n" % (ty, ty)
    body += "}\n"
    return body


DUP_SHAPES = [
    ([("Http", {}), ("HTTP", {}), ("Other", {})], "lowercase"),
    ([("A", {"serialize": ["mid"]}), ("B", {"serialize": ["mid"]}), ("C", {"to_string": "mid"}), ("D", {})], None),
    ([("First", {}), ("X", {"to_string": "same"}), ("Y", {"to_string": "same"}), ("Last", {"to_string": "same"})], "snake_case"),
    ([("ab", {}), ("aB", {}), ("Ab", {}), ("AB", {})], "UPPERCASE"),
    ([("P", {"to_string": ""}), ("Q", {"to_string": ""})], None),
    ([("Gray", {}), ("Red", {}), ("Grey", {"to_string": "gray"}), ("Blue", {}), ("GRAY", {})], "lowercase"),
    ([("A", {"serialize": ["dup", "d"]}), ("B", {}), ("C", {"serialize": ["d", "dup"]}), ("D", {"to_string": "dup"}), ("E", {})], None),
]



def glue_solo(spec):
    """The derive under test is the only strum derive on the enum: its #[strum(..)] helper attribute must still be accepted."""
    en = spec.enabled()
    names = c03.canon_list(spec)
    ty = spec.ty()
    d = spec.derives[0]
    body = spec.render() + "\n"
    body += "pub fn drive(m: &mut vmon::Mon) {\n"
    body += "    " + make_fn(spec, en) + "\n"
    if d == "EnumCount":
        body += "    m.expect_eq(\"lists\", \"COUNT (only derive on the enum)\", \"count\", &<%s as strum::EnumCount>::COUNT, &%d, true);\n" % (ty, len(en))
    elif d == "EnumIter":
        body += "    let mk = || <%s as strum::IntoEnumIterator>::iter();\n" % ty
        body += "    vmon::iter::check_list(m, &mk, %d, &make, %d, true);\n" % (len(en), len(en))
    elif d == "VariantNames":
        body += "    vmon::names::check_table(m, \"lists\", \"VariantNames::VARIANTS (only derive on the enum)\", <%s as strum::VariantNames>::VARIANTS, %s, true);\n" % (ty, str_slice(names))
    else:
        allv = ", ".join(v.ctor(spec.path(), []) for v in spec.variants)
        body += "    let want_all: Vec<%s> = vec![%s];\n" % (ty, allv)
        body += "    m.expect_eq(\"lists\", \"VariantArray::VARIANTS (only derive on the enum)\", \"all\", &<%s as strum::VariantArray>::VARIANTS.to_vec(), &want_all, true);\n" % ty
    body += "}\n"
    return body


def check(run):
    deps, vmon = setup(run)
    thorough = run.tier == "thorough"
    r0 = gen.rng_for(0, "c08-sys")
    specs = []
    k = 0
    nmax = 7 if thorough else 5
    for n in range(0, nmax + 1):
        for mask in gen.all_masks(n):
            specs.append(build(r0, "S%d" % k, n, mask, fieldless=(k % 3 != 2)))
            k += 1
    r = gen.rng_for(run.seed, "c08")
    for i in range(8000 if thorough else 2000):
        n = r.choice([0, 1, 2, 3, 4, 6, 9, 14]) if i not in (7, 8) else 60
        mask = [r.random() < (0.25 if i % 2 else 0.0) for _ in range(n)]
        fl = r.random() < 0.6
        specs.append(build(r, "R%d" % i, n, mask, fieldless=fl, generics=None if fl else r.choice([None, "T", "N", "TU", "NT", "Tnd", "Tw"])))
        if fl and i % 5 == 4:
            specs[-1].generics = "Nfree"      # a field-less enum may still have (const) generic parameters
    # variants whose canonical names coincide (legal without EnumString): one entry per variant must remain
    for di, (vs, style) in enumerate(DUP_SHAPES):
        for pref in (None, "p:"):
            for disabled_at in (None, 0, 1):
                variants = [Variant(ident=i, serialize=list(a.get("serialize", [])), to_string=a.get("to_string")) for i, a in vs]
                if disabled_at is not None:
                    variants[disabled_at].disabled = True
                specs.append(EnumSpec(name="D%d" % len(specs), variants=variants, serialize_all=style, prefix=pref,
                                      derives=["EnumCount", "EnumIter", "VariantNames", "VariantArray", "Display", "AsRefStr"]))
    solo = []
    for i in range(200 if thorough else 48):
        n = r.choice([1, 2, 3, 5])
        mask = [r.random() < 0.35 for _ in range(n)]
        so = build(r, "Solo%d" % i, n, mask, fieldless=True)
        so.derives = [["EnumCount"], ["EnumIter"], ["VariantNames"], ["VariantArray"]][i % 4]
        so.tags.append("solo:" + so.derives[0])
        solo.append(so)
    specs = specs + solo
    units = [shards.Unit("u_" + s.name.lower(), (glue_solo(s) if any(t.startswith("solo:") for t in s.tags) else glue(s)),
                         meta={"enum_src": s.render(), "bare_src": s.render_bare()}, sig=s.signature()) for s in specs]
    run.rule = RULE
    samples = standard_flow(run, units, deps["std"], vmon, profiles=("debug",), tag="c08")
    pick_samples(run, samples, {u.name: u for u in units})
    run.extra["programs"] = len(units)
    run.assumptions = ["derive(Debug)/derive(PartialEq)/derive(Clone) of std are correct", "generator renders the EnumSpec faithfully"]
