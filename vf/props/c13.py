"""C13 — EnumIs predicates partition the variants; EnumTryAs returns payloads unchanged."""
from .common import *

RULE = ("programs: variant kinds x 0..3 tuple fields (pairwise distinct types AND repeated types) x generics, lifetimes and "
        "where-clauses (incl. associated-type bounds) x identifiers with digits, several digit runs, acronyms and underscores x "
        "disabled variants at every position. events: every sample value (default and non-default payloads) against EVERY generated "
        "method: is_* (exactly the own variant's predicate is true; none for a disabled variant), try_as_* by value / _ref / _mut "
        "(Some exactly for the own tuple variant with all fields in order, compared through Debug with the constructed payload; a "
        "write through every &mut is re-read from the enum). Method names come from the model's snakify, so a misnamed or missing "
        "method is a compile failure attributed to the enum. non-trivial: all; distinct = (enum, value, method).")

IDENTS = gen.IDENTS + ["Ipv4Addr6", "Sha256Sum512", "A1B2C3", "X", "Y2", "HTTP2", "Utf8String", "B64", "R2D2", "Level99Boss", "Two__Under", "_Lead", "Trail_", "a", "b2c",
                      "IsReady", "Is2Fa", "Is", "TryAsFoo", "AsRef", "TryInto", "Ref", "Mut", "TryAs", "IsIs"]
FIELD_TYPES = ["u8", "i32", "bool", "String", "OptU8", "VecU8", "char", "i64", "u16", "Tup"]


def build(r, name, generics=None):
    n = r.choice([1, 2, 3, 4, 5, 6, 8]) if r.random() > 0.01 else 30
    idents = gen.pick_idents(r, n, pool=IDENTS, avoid_snake_collisions=True)
    vs = []
    for i in range(n):
        kind = r.choice(["unit", "tuple", "tuple", "tuple", "named"])
        same = r.random() < 0.35
        fields = gen.rand_fields(r, kind, nmax=(5 if r.random() < 0.1 else 3), generics=generics, types=FIELD_TYPES, distinct_types=not same)
        if kind == "tuple" and same and len(fields) >= 2:
            for f in fields[1:]:
                f.ty = fields[0].ty
        v = Variant(ident=idents[i], kind=kind, fields=fields, disabled=r.random() < 0.2)
        if r.random() < 0.15:
            v.serialize = ["x%d" % i]
        vs.append(v)
    spec = EnumSpec(name=name, variants=vs, derives=["EnumIs", "EnumTryAs"], std_derives=["Debug", "Clone"], generics=generics)
    gen.ensure_generics_used(r, spec)
    # Carrier must not collide after snakify
    names = [model.snakify(v.ident) for v in spec.variants]
    if len(set(names)) != len(names):
        return None
    gen.add_noise(r, spec, skip=("serialize",))
    gen.maybe_macro_wrap(r, spec)
    for v in spec.variants:
        if r.random() < 0.15 and not v.serialize:
            v.to_string = "noise name %s" % v.ident      # method names come from the identifier, never from the spelling
    return spec


def tup(exprs):
    if len(exprs) == 1:
        return "(%s)" % exprs[0]
    return "(%s)" % ", ".join(exprs)


def glue(spec):
    ty = spec.ty()
    P = spec.path()
    body = spec.render() + "\n"
    body += "pub fn drive(m: &mut vmon::Mon) {\n"
    # samples with their payload expressions
    samples = []   # (variant idx, exprs)
    for i, v in enumerate(spec.variants):
        samples.append((i, v.default_exprs()))
        if v.fields:
            samples.append((i, v.sample_exprs(0)))
            samples.append((i, v.sample_exprs(1)))
    is_list = []
    for i, v in enumerate(spec.variants):
        if not v.disabled:
            is_list.append("(%s, %d, <%s>::is_%s as fn(&%s) -> bool)" % (rs_str("is_" + model.snakify(v.ident)), i, ty, model.snakify(v.ident), ty))
    body += "    let is_fns: Vec<(&str, usize, fn(&%s) -> bool)> = vec![%s];\n" % (ty, ", ".join(is_list))
    tas = [(i, v) for i, v in enumerate(spec.variants) if v.kind == "tuple" and not v.disabled]
    for i, v in tas:
        sn = model.snakify(v.ident)
        nf = len(v.fields)
        body += "    let val_%d = |e: &%s| -> Option<String> { e.clone().try_as_%s().map(|t| format!(\"{:?}\", t)) };\n" % (i, ty, sn)
        body += "    let ref_%d = |e: &%s| -> Option<String> { e.try_as_%s_ref().map(|t| format!(\"{:?}\", t)) };\n" % (i, ty, sn)
        news = [TYPES[f.ty][2][-1] for f in v.fields]
        if nf == 0:
            pat, assign = "()", ""
        elif nf == 1:
            pat, assign = "x0", "*x0 = %s;" % news[0]
        else:
            pat = "(%s)" % ", ".join("x%d" % k for k in range(nf))
            assign = " ".join("*x%d = %s;" % (k, news[k]) for k in range(nf))
        body += "    let mut_%d = |e: &mut %s| -> bool { match e.try_as_%s_mut() { Some(%s) => { %s true }, None => false } };\n" % (i, ty, sn, pat, assign)
    body += "    let mut k = 0usize;\n"
    for (vi, exprs) in samples:
        v = spec.variants[vi]
        ctor = v.ctor(P, exprs)
        body += "    { let e: %s = %s; let subj = format!(\"{:?}\", e); k += 1;\n" % (ty, ctor)
        body += "      for (name, own, f) in is_fns.iter() { m.expect_eq(\"is\", name, &subj, &f(&e), &(*own == %d), true); }\n" % vi
        body += "      let trues = is_fns.iter().filter(|(_, _, f)| f(&e)).count();\n"
        body += "      m.expect_eq(\"is\", \"number of true predicates\", &subj, &trues, &%d, true);\n" % (0 if v.disabled else 1)
        for i, tv in tas:
            sn = model.snakify(tv.ident)
            if i == vi:
                want = "Some(format!(\"{:?}\", %s))" % tup(exprs) if exprs else "Some(format!(\"{:?}\", ()))"
            else:
                want = "None"
            body += "      m.expect_eq(\"try_as\", \"try_as_%s\", &subj, &val_%d(&e), &%s, true);\n" % (sn, i, want)
            body += "      m.expect_eq(\"try_as\", \"try_as_%s_ref\", &subj, &ref_%d(&e), &%s, true);\n" % (sn, i, want)
            news = [TYPES[f.ty][2][-1] for f in tv.fields]
            body += "      { let mut e2 = e.clone(); let hit = mut_%d(&mut e2);\n" % i
            body += "        m.expect_eq(\"try_as\", \"try_as_%s_mut is Some\", &subj, &hit, &%s, true);\n" % (sn, "true" if i == vi else "false")
            after = tv.ctor(P, news) if i == vi else ctor
            body += "        m.expect_str(\"try_as\", \"value after writes through try_as_%s_mut\", &subj, &format!(\"{:?}\", e2), &format!(\"{:?}\", { let w: %s = %s; w }), true); }\n" % (sn, ty, after)
        body += "    }\n"
    body += "}\n"
    return body


def check(run):
    deps, vmon = setup(run)
    thorough = run.tier == "thorough"
    r = gen.rng_for(run.seed, "c13")
    specs = []
    k = 0
    want = 4000 if thorough else 700
    while len(specs) < want:
        k += 1
        g = r.choice([None, None, None, "T", "a", "aT", "aTw", "I", "aI", "N", "TU", "Tw", "Tdef", "TNdef", "TwU", "Tnd", "NT"])
        s = build(r, "E%d" % k, generics=g)
        if s is not None:
            specs.append(s)
    # systematic: every position of one disabled variant in 4-variant enums of mixed kinds
    r0 = gen.rng_for(0, "c13-sys")
    for pos in range(4):
        for rep in range(3):
            k += 1
            s = None
            while s is None:
                s = build(r0, "E%d" % k)
            s.variants = s.variants[:4] if len(s.variants) >= 4 else s.variants
            if "Default" in s.std_derives and not any("#[default]" in v.extra_attrs for v in s.variants):
                s.std_derives = [d for d in s.std_derives if d != "Default"]
            for j, v in enumerate(s.variants):
                v.disabled = (j == pos)
            specs.append(s)
    units = [shards.Unit("u_" + s.name.lower(), glue(s), meta={"enum_src": s.render(), "bare_src": s.render_bare()}, sig=s.signature()) for s in specs]
    run.rule = RULE
    samples = standard_flow(run, units, deps["std"], vmon, profiles=("debug",), tag="c13")
    if thorough:
        from .. import miri
        r2 = gen.rng_for(run.seed, "c13-miri")
        mu = []
        j = 0
        while len(mu) < 3:
            j += 1
            ms = build(r2, "M%d" % j, generics=[None, "a", "T"][len(mu)])
            if ms is not None and len(ms.variants) <= 4:
                mu.append(shards.Unit("u_m%d" % j, glue(ms), meta={"enum_src": ms.render(), "bare_src": ms.render_bare()}, sig="miri"))
        miri.run_miri(run, mu)
    pick_samples(run, samples, {u.name: u for u in units})
    run.extra["programs"] = len(units)
    run.assumptions = ["derive(Debug)/derive(Clone) of std are correct (Debug rendering is the observation channel for payloads)"]
