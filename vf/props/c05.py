"""C05 — double-ended / exact-size / fused iterator contract under all call sequences."""
from .common import *

RULE = ("histories: ALL sequences over {next, next_back, clone, nth(k), nth_back(k)} with k in {0..N+1, usize::MAX-1, "
        "1<<32, 1<<63, usize::MAX} up to the stated depth (iterative deepening, branching through clone()), each call compared in "
        "lock-step with std::vec::IntoIter over the model list (item, len(), size_hint() after every call, 6 extra "
        "calls after exhaustion, no panic), in debug (overflow checks on) and release profiles, plus seeded random walks "
        "and skip/step_by/rev/take/cycle adapter probes with k up to usize::MAX. non-trivial: history length >= 2; "
        "distinct = (enum, profile, history prefix).")


def build_enum(r, name, n_enabled, n_disabled, generics=None):
    n = n_enabled + n_disabled
    mask = [True] * n_disabled + [False] * n_enabled
    r.shuffle(mask)
    idents = gen.pick_idents(r, n)
    vs = []
    for i in range(n):
        kind = r.choice(["unit", "unit", "tuple", "named"])
        vs.append(Variant(ident=idents[i], kind=kind, fields=gen.rand_fields(r, kind, nmax=2, generics=generics), disabled=mask[i]))
    spec = EnumSpec(name=name, variants=vs, derives=["EnumIter"], generics=generics)
    before = len(spec.variants)
    gen.ensure_generics_used(r, spec)
    return spec


def depth_for(n, thorough):
    # alphabet size is 2N+9; bound the number of histories per (enum, profile)
    if thorough:
        return 5 if n <= 2 else (4 if n <= 8 else 3)
    return 4 if n <= 2 else (3 if n <= 8 else 2)


def glue(spec, thorough):
    en = spec.enabled()
    n = len(en)
    d = depth_for(n, thorough)
    walks = 4000 if thorough else 300
    body = spec.render() + "\n"
    body += "pub fn drive(m: &mut vmon::Mon) {\n"
    body += "    " + make_fn(spec, en) + "\n"
    body += "    let mk = || <%s as strum::IntoEnumIterator>::iter();\n" % spec.ty()
    body += "    let profile = m.args.get(3).cloned().unwrap_or_default();\n"
    body += "    vmon::iter::explore(m, &mk, %d, &make, %d, %d, &profile);\n" % (n, d, walks)
    body += "    vmon::iter::adapters(m, &mk, %d, &make, &profile);\n" % n
    body += "}\n"
    return body


SENDSYNC_HEAD = """
pub struct NotSendSync(pub std::rc::Rc<u8>, pub std::cell::Cell<u8>, pub *const u8);
impl Default for NotSendSync { fn default() -> Self { NotSendSync(std::rc::Rc::new(0), std::cell::Cell::new(0), std::ptr::null()) } }
pub fn assert_send_sync<T: Send + Sync>() {}
"""


def sendsync_probe(run, deps):
    """Static part: the iterator type is Send + Sync whatever the type parameters are.  Observed at the
    compiler boundary: the probe crate must compile."""
    cases = []
    for i, (decl, inst) in enumerate([
        ("<T: Default>", "NotSendSync"), ("<T: Default>", "std::rc::Rc<u8>"), ("<T: Default>", "std::cell::Cell<u8>"),
        ("<T: Default, U: Default>", "u8, NotSendSync"), ("<T: Default, U: Default>", "std::rc::Rc<u8>, std::cell::RefCell<u8>"),
        ("<T: Default, const N: usize>", "NotSendSync, 3"),
    ]):
        params = [p.strip().split(":")[0].replace("const ", "").strip() for p in decl.strip("<>").split(",")]
        tparams = [p for p in params if p != "N"]
        fields = ", ".join(tparams)
        src = (shards.SHARD_HEAD + SENDSYNC_HEAD +
               "#[derive(strum::EnumIter)]\npub enum G%s { A, B(%s), #[strum(disabled)] C, D { x: %s } }\n" % (decl, fields, tparams[0]) +
               "fn main() { assert_send_sync::<<G<%s> as strum::IntoEnumIterator>::Iterator>(); }\n" % inst)
        cases.append((i, decl, inst, src))

    def go(c):
        i, decl, inst, src = c
        p = run.path("sendsync_%d.rs" % i)
        open(p, "w").write(src)
        return c, core.rustc(p, run.path("sendsync_%d.bin" % i), deps, vmon=core.build_vmon())

    for (i, decl, inst, src), c in core.pmap(go, cases):
        run.evaluations += 1
        run.distinct += 1
        run.count("sendsync/probes")
        if not c.ok:
            run.violation("iter:send-sync:%s" % shards.norm_msg(shards.diag_summary(c)),
                          "iterator of G<%s> is not Send + Sync (probe does not compile): %s" % (inst, shards.diag_summary(c)),
                          detail={"instantiation": inst}, replay_src=src, replay_meta={"kind": "compile"})
        else:
            run.samples.append({"probe": "assert_send_sync::<<G<%s> as IntoEnumIterator>::Iterator>()" % inst, "observed": "compiles"})


def check(run):
    deps, vmon = setup(run)
    thorough = run.tier == "thorough"
    r = gen.rng_for(run.seed, "c05")
    specs = []
    k = 0
    for n in range(0, 9):
        for nd in ((0, 2) if not thorough else (0, 1, 3)):
            specs.append(build_enum(r, "E%d" % k, n, nd, generics=None))
            k += 1
    for g, n in (("T", 3), ("N", 2), ("TU", 4), ("NT", 3), ("Tnd", 2), ("Tw", 3)):
        specs.append(build_enum(r, "E%d" % k, n, 1, generics=g))
        k += 1
    if thorough:
        for n in (12, 20, 33):
            specs.append(build_enum(r, "E%d" % k, n, 2))
            k += 1
    units = [shards.Unit("u_" + s.name.lower(), glue(s, thorough), meta={"enum_src": s.render(), "enabled": len(s.enabled())}, sig="N=%d,%s" % (len(s.enabled()), s.signature()))
             for s in specs]
    run.rule = RULE
    samples = standard_flow(run, units, deps["std"], vmon, profiles=("debug", "release"), tag="c05", nshards=len(units))
    sendsync_probe(run, deps["std"])
    if thorough:
        from .. import miri
        r2 = gen.rng_for(run.seed, "c05-miri")
        mu = []
        for j, (n, nd) in enumerate([(0, 0), (1, 1), (3, 1)]):
            ms = build_enum(r2, "M%d" % j, n, nd)
            g = glue(ms, False)
            import re as _re
            g = _re.sub(r"explore\(m, &mk, (\d+), &make, \d+, \d+,", r"explore(m, &mk, \1, &make, 2, 6,", g)
            mu.append(shards.Unit("u_m%d" % j, g, meta={"enum_src": ms.render(), "bare_src": ms.render_bare()}, sig="miri,N=%d" % n))
        miri.run_miri(run, mu)
    pick_samples(run, samples, {u.name: u for u in units})
    run.extra["programs"] = len(units)
    run.extra["profiles"] = ["debug (debug-assertions/overflow-checks on)", "release (opt-level 3, checks off)"]
    run.extra["depth_by_N"] = {str(n): depth_for(n, thorough) for n in range(0, 9)}
    run.assumptions = ["std::vec::IntoIter is a correct double-ended exact-size fused iterator (reference implementation)",
                       "derive(Debug)/derive(PartialEq) are correct"]
