"""C10 — EnumTable is a total map from enabled variants to values."""
from .common import *

RULE = ("programs: field-less enums with 1..n enabled variants and every placement of disabled variants (all masks for small n; "
        "seeded larger ones up to 24 variants), identifiers with digits/acronyms/underscores. histories: ALL write sequences up to "
        "depth D over all keys x 2 values with unique ids, the whole table compared with an array model after every write and the "
        "table branched from compared again (clone independence), plus seeded random walks; constructors new (declaration order, "
        "distinct value per position), filled, from_closure (call log: once per enabled key, never a disabled one), transform; "
        "all() over ALL 2^n Some/None masks; all_ok() over ALL 2^n Ok/Err masks with distinct error ids (first Err in declaration "
        "order); Index/IndexMut with a disabled variant must panic and leave the table unchanged; clone/== consistency. "
        "non-trivial: every event after the initial comparison; distinct = (enum, operation, history/mask, slot).")


def build(r, name, n_enabled, mask):
    n = len(mask)
    idents = gen.pick_idents(r, n, avoid_snake_collisions=True)
    vs = [Variant(ident=idents[i], disabled=bool(mask[i])) for i in range(n)]
    for v in vs:
        if r.random() < 0.2:
            v.serialize = [r.choice(gen.SPELLINGS_ASCII)]
        if v.disabled and r.random() < 0.4:
            v.message = "disabled with other attributes"
        v.split_attrs = r.choice([0, 1, 2])
        v.attr_order_seed = r.randint(0, 7)
    spec = EnumSpec(name=name, variants=vs, derives=["EnumTable"], std_derives=["Debug", "PartialEq", "Clone", "Copy"])
    gen.add_noise(r, spec, skip=("message", "nest"))
    if r.random() < 0.3:
        spec.vis = r.choice(["pub(crate)", "pub(super)"])     # the enum already lives in `mod defs`; the table type follows its visibility
    gen.maybe_macro_wrap(r, spec)
    if not any(model.snakify(v.ident).startswith("r_") for v in spec.variants):
        gen.rawify(r, spec, explicit_names=False)
    if r.random() < 0.5:
        # explicit discriminants in an order unrelated to the declaration order
        vals = r.sample(range(-40, 400), n)
        spec.repr = "i32"
        for v, val in zip(vs, vals):
            if r.random() < 0.7:
                v.disc = (str(val), val)
        ds = model.discriminants(spec)
        if len(set(ds)) != len(ds):
            for v in vs:
                v.disc = None
            spec.repr = None
    return spec
    return EnumSpec(name=name, variants=vs, derives=["EnumTable"], std_derives=["Debug", "PartialEq", "Clone", "Copy"])


def glue(spec, thorough):
    en = spec.enabled()
    dis = [i for i, v in enumerate(spec.variants) if v.disabled]
    n = len(en)
    ty = spec.ty()
    tab = spec.name + "Table"
    P = spec.path()
    import zlib
    companion = ""
    if zlib.crc32(spec.name.encode()) % 3 == 0:
        # a second table enum (with a disabled variant of its own) in the same module: whatever the derive emits next to one
        # enum must not collide with what it emits next to the other
        companion = ("\n#[derive(Debug, PartialEq, Clone, Copy, strum::EnumTable)]\npub enum Companion%s { First, #[strum(disabled)] Off, Last }\n" % spec.name)
    body = "pub mod defs {\n    use super::*;\n" + spec.render() + companion + "\n}\nuse self::defs::*;\n"
    body += "pub struct NoClone(pub u64);\n"
    body += "pub fn drive(m: &mut vmon::Mon) {\n"
    body += "    let key = |i: usize| -> %s { match i { %s, _ => unreachable!() } };\n" % (ty, ", ".join("%d => %s::%s" % (p, P, spec.variants[i].ident) for p, i in enumerate(en)))
    body += "    let idx = |k: %s| -> usize { match k { %s } };\n" % (ty, ", ".join(
        ["%s::%s => %d" % (P, spec.variants[i].ident, p) for p, i in enumerate(en)] + ["%s::%s => usize::MAX" % (P, spec.variants[i].ident) for i in dis]))
    # new(): positional = declaration order
    body += "    let t0: %s<u64> = %s::new(%s);\n" % (tab, tab, ", ".join("%du64" % (100 + p) for p in range(n)))
    body += "    let model0: Vec<u64> = vec![%s];\n" % ", ".join("%d" % (100 + p) for p in range(n))
    body += "    vmon::table::compare(m, &t0, &model0, &key, \"new\", \"new(100, 101, ..) in declaration order\");\n"
    depth = (4 if n <= 3 else 3 if n <= 5 else 2) if thorough else (3 if n <= 3 else 2 if n <= 8 else 1)
    body += "    vmon::table::explore_writes(m, &t0, &model0, &key, %d, &[1u64, 2u64]);\n" % depth
    body += "    vmon::table::random_walk(m, &t0, &model0, &key, %d);\n" % (2000 if thorough else 200)
    # filled
    body += "    let tf: %s<u64> = %s::filled(7u64);\n" % (tab, tab)
    body += "    vmon::table::compare(m, &tf, &vec![7u64; %d], &key, \"filled\", \"filled(7)\");\n" % n
    # from_closure with call log
    body += "    let calls = std::cell::RefCell::new(Vec::<usize>::new());\n"
    body += "    let tc: %s<u64> = %s::from_closure(|k: %s| { calls.borrow_mut().push(idx(k)); if idx(k) == usize::MAX { 999_999 } else { 500 + 3 * idx(k) as u64 } });\n" % (tab, tab, ty)
    body += "    vmon::table::compare(m, &tc, &(0..%d).map(|i| 500 + 3 * i as u64).collect::<Vec<u64>>(), &key, \"from_closure\", \"from_closure(|k| 500 + 3*idx(k))\");\n" % n
    body += "    let mut c = calls.borrow().clone(); c.sort();\n"
    body += "    m.expect_eq(\"table\", \"from_closure call log\", \"keys the closure was called with\", &c, &(0..%d).collect::<Vec<usize>>(), true);\n" % n
    # transform
    body += "    let tcalls = std::cell::RefCell::new(Vec::<(usize, u64)>::new());\n"
    body += "    let tt: %s<String> = t0.transform(|k: %s, v: &u64| { tcalls.borrow_mut().push((idx(k), *v)); format!(\"{}:{}\", idx(k) as i64, v) });\n" % (tab, ty)
    body += "    for i in 0..%d { m.expect_str(\"table\", \"transform\", &format!(\"slot {}\", i), &tt[key(i)], &format!(\"{}:{}\", i, 100 + i), true); }\n" % n
    body += "    let mut tc2 = tcalls.borrow().clone(); tc2.sort();\n"
    body += "    m.expect_eq(\"table\", \"transform call log\", \"(key, old value) pairs\", &tc2, &(0..%d).map(|i| (i, 100 + i as u64)).collect::<Vec<(usize, u64)>>(), true);\n" % n
    body += "    vmon::table::compare(m, &t0, &model0, &key, \"transform-leaves-source\", \"after transform\");\n"
    # all(): every mask
    nm = min(n, 10 if thorough else 8)
    body += "    for mask in 0u32..(1u32 << %d) {\n" % nm
    body += "        let o = |i: usize| -> Option<u64> { if i >= %d || (mask >> i) & 1 == 1 { Some(900 + i as u64) } else { None } };\n" % nm
    body += "        let t: %s<Option<u64>> = %s::new(%s);\n" % (tab, tab, ", ".join("o(%d)" % p for p in range(n)))
    body += "        let hist = format!(\"all() with Some-mask {:#b}\", mask);\n"
    body += "        let r = t.all();\n"
    body += "        let full = mask == (1u32 << %d) - 1;\n" % nm
    body += "        m.event(\"table/all\", Some(vmon::hash_of(&(\"all\", mask))));\n"
    body += "        match r { Some(tt) => { if !full { m.viol(\"table:all:some-for-incomplete\", vmon::jobj(&[(\"history\", vmon::jstr(&hist)), (\"expected\", vmon::jstr(\"None\")), (\"observed\", vmon::jstr(&format!(\"{:?}\", tt)))])); } else { vmon::table::compare(m, &tt, &(0..%d).map(|i| 900 + i as u64).collect::<Vec<u64>>(), &key, \"all\", &hist); } }\n" % n
    body += "                  None => { if full { m.viol(\"table:all:none-for-complete\", vmon::jobj(&[(\"history\", vmon::jstr(&hist)), (\"expected\", vmon::jstr(\"Some(..)\")), (\"observed\", vmon::jstr(\"None\"))])); } } }\n"
    body += "        let e = |i: usize| -> Result<u64, u64> { if i >= %d || (mask >> i) & 1 == 1 { Ok(900 + i as u64) } else { Err(7000 + i as u64) } };\n" % nm
    body += "        let t: %s<Result<u64, u64>> = %s::new(%s);\n" % (tab, tab, ", ".join("e(%d)" % p for p in range(n)))
    body += "        let hist = format!(\"all_ok() with Ok-mask {:#b}\", mask);\n"
    body += "        let first_err = (0..%d).find(|i| (mask >> i) & 1 == 0);\n" % nm
    body += "        m.event(\"table/all_ok\", Some(vmon::hash_of(&(\"all_ok\", mask))));\n"
    body += "        match (t.all_ok(), first_err) {\n"
    body += "            (Ok(tt), None) => { vmon::table::compare(m, &tt, &(0..%d).map(|i| 900 + i as u64).collect::<Vec<u64>>(), &key, \"all_ok\", &hist); }\n" % n
    body += "            (Err(x), Some(i)) if x == 7000 + i as u64 => {}\n"
    body += "            (got, want) => { m.viol(\"table:all_ok\", vmon::jobj(&[(\"history\", vmon::jstr(&hist)), (\"expected\", vmon::jstr(&format!(\"first Err in declaration order: {:?}\", want.map(|i| 7000 + i as u64)))), (\"observed\", vmon::jstr(&format!(\"{:?}\", got)))])); }\n"
    body += "        }\n"
    body += "    }\n"
    # disabled keys panic and leave the table unchanged
    for i in dis:
        v = spec.variants[i]
        body += "    { let mut t = t0.clone();\n"
        body += "      m.expect_panic(\"table\", \"index(disabled)\", %s, || { let _ = t0[%s::%s]; });\n" % (rs_str(v.ident), P, v.ident)
        body += "      m.expect_panic(\"table\", \"index_mut(disabled)\", %s, std::panic::AssertUnwindSafe(|| { t[%s::%s] = 5; }));\n" % (rs_str(v.ident), P, v.ident)
        body += "      vmon::table::compare(m, &t, &model0, &key, \"unchanged-after-disabled-write\", %s); }\n" % rs_str("t[%s] = 5" % v.ident)
    # value types that are not Clone / Default / Debug: new, from_closure, transform and indexing must not need them
    body += "    let tn: %s<NoClone> = %s::new(%s);\n" % (tab, tab, ", ".join("NoClone(%d)" % (300 + p) for p in range(n)))
    body += "    for i in 0..%d { m.expect_eq(\"table\", \"new with a non-Clone value type\", &format!(\"slot {}\", i), &tn[key(i)].0, &(300 + i as u64), true); }\n" % n
    body += "    let tn2: %s<NoClone> = %s::from_closure(|k: %s| NoClone(700 + idx(k) as u64));\n" % (tab, tab, ty)
    body += "    let tn3: %s<NoClone> = tn2.transform(|k: %s, v: &NoClone| NoClone(v.0 * 2 + idx(k) as u64));\n" % (tab, ty)
    body += "    for i in 0..%d { m.expect_eq(\"table\", \"from_closure/transform with a non-Clone value type\", &format!(\"slot {}\", i), &tn3[key(i)].0, &((700 + i as u64) * 2 + i as u64), true); }\n" % n
    # clone / eq
    body += "    let mut t1 = t0.clone();\n"
    body += "    m.expect_eq(\"table\", \"clone == original\", \"eq\", &(t1 == t0), &true, true);\n"
    body += "    t1[key(%d)] = 424242;\n" % (n - 1)
    body += "    m.expect_eq(\"table\", \"clone != original after write\", \"eq\", &(t1 == t0), &false, true);\n"
    body += "    vmon::table::compare(m, &t0, &model0, &key, \"clone-independence\", \"write through clone\");\n"
    body += "}\n"
    return body


def check(run):
    deps, vmon = setup(run)
    thorough = run.tier == "thorough"
    specs = []
    k = 0
    r0 = gen.rng_for(0, "c10-sys")
    for n in range(1, (7 if thorough else 6)):
        for mask in gen.all_masks(n):
            if all(mask):
                continue
            if n >= 5 and sum(mask) > 2 and not thorough:
                continue
            specs.append(build(r0, "E%d" % k, n - sum(mask), mask))
            k += 1
    r = gen.rng_for(run.seed, "c10")
    for _ in range(800 if thorough else 250):
        n = r.choice([1, 2, 3, 5, 8, 12, 16, 24]) if r.random() > 0.06 else r.choice([34, 48, 70])
        mask = [r.random() < 0.25 for _ in range(n)]
        if all(mask):
            mask[r.randrange(n)] = False
        specs.append(build(r, "E%d" % k, n - sum(mask), mask))
        k += 1
    units = [shards.Unit("u_" + s.name.lower(), glue(s, thorough), meta={"enum_src": s.render(), "bare_src": s.render_bare()}, sig="n=%d,%s" % (len(s.enabled()), s.signature())) for s in specs]
    run.rule = RULE
    samples = standard_flow(run, units, deps["std"], vmon, profiles=("fast",), tag="c10")
    if thorough:
        from .. import miri
        import re as _re
        r2 = gen.rng_for(run.seed, "c10-miri")
        mu = []
        for j, mask in enumerate([(False, False), (False, True, False), (True, False, False, False)]):
            ms = build(r2, "M%d" % j, len(mask) - sum(mask), list(mask))
            g = glue(ms, False)
            g = _re.sub(r"explore_writes\(m, &t0, &model0, &key, \d+,", "explore_writes(m, &t0, &model0, &key, 2,", g)
            g = _re.sub(r"random_walk\(m, &t0, &model0, &key, \d+\)", "random_walk(m, &t0, &model0, &key, 30)", g)
            mu.append(shards.Unit("u_m%d" % j, g, meta={"enum_src": ms.render(), "bare_src": ms.render_bare()}, sig="miri"))
        miri.run_miri(run, mu)
    pick_samples(run, samples, {u.name: u for u in units})
    run.extra["programs"] = len(units)
    run.assumptions = ["array model (Vec<u64>) is the specification of a total map", "derive(Debug)/derive(PartialEq)/derive(Clone) of std are correct"]
