"""C20 — unsupported input gets a compile error, never a macro panic or silent acceptance."""
from .common import *

RULE = ("programs: every rejection rule of the statement (R1 non-enum, R2 data variant, R3 lifetime, R4 repeated single-use "
        "attribute within one #[strum] and across two, R5 two defaults, R6 default/transparent on 0/2-field and unit variants, R7 "
        "placeholders on a unit variant, R8 unknown serialize_all style, R9 lone parse_err_ty/parse_err_fn, R10 unsupported "
        "property literal) instantiated on every derive the rule applies to (must-reject cells) and on all other derives (panic "
        "oracle only), at every position among otherwise valid variants, with seeded surrounding variants / names / attribute order. "
        "Items are compiled 60 per crate, each in its own module; diagnostics are grouped per item by primary span. oracle: (i) no "
        "`proc-macro derive panicked` / ICE anywhere; (ii) every must-reject item has an error-level diagnostic whose primary span "
        "lies inside the item; an item without one is recompiled alone and compiling cleanly is 'silently accepted'. "
        "non-trivial: all; distinct = (rule, derive, shape).")

DERIVES = ["EnumString", "AsRefStr", "VariantNames", "EnumVariantNames", "VariantArray", "AsStaticStr", "IntoStaticStr", "ToString", "Display",
           "EnumIter", "EnumIs", "EnumTryAs", "EnumTable", "FromRepr", "EnumMessage", "EnumProperty", "EnumDiscriminants", "EnumCount"]
SKIP = ["EnumString", "Display", "AsRefStr", "IntoStaticStr", "AsStaticStr", "ToString", "EnumIter", "EnumCount", "FromRepr", "EnumMessage",
        "EnumProperty", "EnumTable", "EnumIs", "EnumTryAs"]
STR_OUT = ["Display", "AsRefStr", "IntoStaticStr", "AsStaticStr", "ToString", "VariantNames", "EnumVariantNames"]
PARSE = ["EnumString"]
MSG = ["EnumMessage"]
TRAIT = ["EnumString", "EnumIter", "EnumCount", "VariantNames", "VariantArray", "EnumMessage", "EnumProperty", "EnumDiscriminants", "AsStaticStr"]
TRANSP = ["Display", "AsRefStr", "IntoStaticStr", "AsStaticStr"]

HEAD = """#![allow(warnings, unused, non_camel_case_types, non_snake_case, non_upper_case_globals, deprecated)]
pub fn dw_a() -> u8 { 1 }
pub fn dw_b() -> u8 { 2 }
pub fn dw_s() -> String { String::new() }
#[derive(Debug)] pub struct MyErr(pub String);
pub fn my_err(s: &str) -> MyErr { MyErr(s.to_string()) }
"""


class Cell:
    def __init__(self, rule, derive, src, must, shape):
        self.rule, self.derive, self.src, self.must, self.shape = rule, derive, src, must, shape
        self.name = None


def valid_variants(r, derive, n=2):
    """Otherwise valid variants suitable for the derive."""
    unit_only = derive in ("VariantArray", "EnumTable")
    ids = gen.pick_idents(r, n + 4, avoid_snake_collisions=True)
    out = []
    for i in range(n):
        if unit_only or r.random() < 0.5:
            out.append("    %s," % ids[i])
        elif r.random() < 0.5:
            out.append("    %s(u8, String)," % ids[i])
        else:
            out.append("    %s { x: u8, y: bool }," % ids[i])
    return out, ids[n:]


def enum_item(name, derive, enum_attrs, variants, generics=""):
    s = "#[derive(strum::%s)]\n" % derive
    for a in enum_attrs:
        s += a + "\n"
    s += "pub enum %s%s {\n%s\n}\n" % (name, generics, "\n".join(variants))
    return s


def place(r, valid, bad_lines, pos):
    v = list(valid)
    idx = {"first": 0, "middle": len(v) // 2, "last": len(v)}[pos]
    return v[:idx] + bad_lines + v[idx:]


def cells(run):
    thorough = run.tier == "thorough"
    if not thorough:
        # quick: the whole matrix once, plus a second seeded rendering of the must-reject cells
        first = cells_for(run, run.seed)
        seen = {c.src for c in first}
        return first + [c for c in cells_for(run, run.seed + 1000) if c.must and c.src not in seen]
    # thorough: three seeded renderings of the whole matrix (other surrounding variants, positions and names), de-duplicated
    out, seen = [], set()
    for sub in (run.seed, run.seed + 1000, run.seed + 2000):
        for c in cells_for(run, sub):
            if c.src not in seen:
                seen.add(c.src)
                out.append(c)
    return out


def cells_for(run, seed):
    r = gen.rng_for(seed, "c20")
    thorough = run.tier == "thorough"
    out = []
    positions = ["first", "middle", "last"]

    def add(rule, derive, src, must, shape):
        out.append(Cell(rule, derive, src, must, shape))

    # R1 non-enum
    for d in DERIVES:
        for shape, item in [("unit-struct", "pub struct S;"), ("tuple-struct", "pub struct S(pub u8, pub String);"),
                            ("named-struct", "pub struct S { pub a: u8, pub b: String }"), ("union", "pub union S { a: u8, b: u16 }"),
                            ("struct-with-attrs", "#[strum(serialize_all = \"snake_case\")]\npub struct S { #[strum(disabled)] pub a: u8 }")]:
            add("R1-non-enum", d, "#[derive(strum::%s)]\n%s\n" % (d, item), True, shape)
    # R2 data-carrying variant
    for d in DERIVES:
        must = d in ("VariantArray", "EnumTable")
        for pos in positions:
            for shape, bad in [("tuple", "    Bad(u8),"), ("named", "    Bad { x: u8 },"), ("empty-tuple", "    Bad(),"), ("empty-named", "    Bad {},")]:
                if not must and not (pos == "middle" and shape in ("tuple", "named")):
                    continue
                valid, _ = valid_variants(r, "VariantArray", 2)
                add("R2-data-variant", d, enum_item("E", d, [], place(r, valid, [bad], pos)), must, "%s@%s" % (shape, pos))
    # R3 lifetime parameter
    for d in DERIVES:
        must = d in ("EnumIter", "FromRepr", "EnumTable")
        for shape, gen_, bad in [("<'a>", "<'a>", "    Bad(&'a str),"), ("<'a, T>", "<'a, T: Default>", "    Bad(&'a str, T),"), ("<'a> named", "<'a>", "    Bad { s: &'a str },"),
                                 ("<'a> used only by a disabled variant", "<'a>", "    #[strum(disabled)]\n    Bad(&'a str),"),
                                 ("<'a> used only by a disabled named variant", "<'a>", "    #[strum(disabled)]\n    Bad { s: &'a str },"),
                                 ("<'a, 'b>", "<'a, 'b>", "    Bad(&'a str, &'b str),"), ("<'a: 'static>", "<'a: 'static>", "    Bad(&'a u8),")]:
            valid, _ = valid_variants(r, "EnumTable", 2)
            add("R3-lifetime", d, enum_item("E", d, [], place(r, valid, [bad], r.choice(positions)), generics=gen_), must, shape)
    # R4 repeated single-use attributes
    var_attrs = [
        ("disabled", "disabled", "disabled", SKIP, "    {A}\n    Bad,"),
        ("to_string", "to_string = \"a\"", "to_string = \"b\"", STR_OUT + PARSE + MSG, "    {A}\n    Bad,"),
        ("to_string(empty first)", "to_string = \"\"", "to_string = \"b\"", STR_OUT + PARSE + MSG, "    {A}\n    Bad,"),
        ("to_string(empty second)", "to_string = \"a\"", "to_string = \"\"", STR_OUT + PARSE + MSG, "    {A}\n    Bad,"),
        ("message(empty first)", "message = \"\"", "message = \"b\"", MSG, "    {A}\n    Bad,"),
        ("detailed_message(empty second)", "detailed_message = \"a\"", "detailed_message = \"\"", MSG, "    {A}\n    Bad,"),
        ("message", "message = \"a\"", "message = \"b\"", MSG, "    {A}\n    Bad,"),
        ("detailed_message", "detailed_message = \"a\"", "detailed_message = \"b\"", MSG, "    {A}\n    Bad,"),
        ("transparent", "transparent", "transparent", TRANSP, "    {A}\n    Bad(&'static str),"),
        ("default", "default", "default", ["EnumString", "Display", "ToString"], "    {A}\n    Bad(String),"),
        ("default_with", "default_with = \"dw_a\"", "default_with = \"dw_b\"", ["EnumString"], "    {A}\n    Bad(u8),"),
        ("ascii_case_insensitive", "ascii_case_insensitive", "ascii_case_insensitive = true", ["EnumString"], "    {A}\n    Bad,"),
        ("ascii_case_insensitive=false", "ascii_case_insensitive = false", "ascii_case_insensitive = false", ["EnumString"], "    {A}\n    Bad,"),
    ]
    for key, a1, a2, musts, tmpl in var_attrs:
        for d in DERIVES:
            must = d in musts
            for form in ("same-attr", "two-attrs", "with-others"):
                if not must and form != "same-attr":
                    continue
                if form == "same-attr":
                    A = "#[strum(%s, %s)]" % (a1, a2)
                elif form == "two-attrs":
                    A = "#[strum(%s)]\n    #[strum(%s)]" % (a1, a2)
                else:
                    A = "#[strum(serialize = \"x\", %s)]\n    /// doc\n    #[strum(message = \"m\", %s)]" % (a1, a2) if key not in ("message",) else "#[strum(%s, serialize = \"x\", %s)]" % (a1, a2)
                bad = tmpl.replace("{A}", A)
                if d in ("VariantArray", "EnumTable") and "(" in bad.split("\n")[-1]:
                    continue
                valid, _ = valid_variants(r, d, 2)
                add("R4-repeated-" + key, d, enum_item("E", d, [], place(r, valid, [bad], r.choice(positions))), must, form)
    # field-level default_with repeated
    for form, A in [("same-attr", "#[strum(default_with = \"dw_a\", default_with = \"dw_b\")]"), ("two-attrs", "#[strum(default_with = \"dw_a\")] #[strum(default_with = \"dw_b\")]")]:
        valid, _ = valid_variants(r, "EnumString", 2)
        add("R4-repeated-field-default_with", "EnumString", enum_item("E", "EnumString", [], place(r, valid, ["    Bad { %s x: u8, y: bool }," % A], r.choice(positions))), True, form)
    enum_attrs = [
        ("serialize_all", "serialize_all = \"snake_case\"", "serialize_all = \"kebab-case\"", STR_OUT + PARSE + MSG),
        ("prefix", "prefix = \"a\"", "prefix = \"b\"", STR_OUT),
        ("prefix(empty first)", "prefix = \"\"", "prefix = \"b\"", STR_OUT),
        ("prefix(empty second)", "prefix = \"a\"", "prefix = \"\"", STR_OUT),
        ("prefix(both empty)", "prefix = \"\"", "prefix = \"\"", STR_OUT),
        ("use_phf", "use_phf", "use_phf", ["EnumString"]),
        ("parse_err_ty", "parse_err_ty = MyErr, parse_err_fn = my_err", "parse_err_ty = MyErr", ["EnumString"]),
        ("parse_err_fn", "parse_err_ty = MyErr, parse_err_fn = my_err", "parse_err_fn = my_err", ["EnumString"]),
        ("const_into_str", "const_into_str", "const_into_str", ["IntoStaticStr"]),
        ("crate", "crate = \"strum\"", "crate = \"strum\"", TRAIT),
        ("ascii_case_insensitive(enum)", "ascii_case_insensitive", "ascii_case_insensitive", ["EnumString"]),
    ]
    for key, a1, a2, musts in enum_attrs:
        for d in DERIVES:
            must = d in musts
            for form in ("same-attr", "two-attrs"):
                if not must and form != "same-attr":
                    continue
                attrs = ["#[strum(%s, %s)]" % (a1, a2)] if form == "same-attr" else ["#[strum(%s)]" % a1, "#[strum(%s)]" % a2]
                valid, _ = valid_variants(r, d, 3)
                add("R4-repeated-" + key, d, enum_item("E", d, attrs, valid), must, form)
    for key, a1, a2 in [("strum_discriminants(name)", "name(A1)", "name(A2)"), ("strum_discriminants(vis)", "vis(pub)", "vis(pub(crate))")]:
        for form in ("same-attr", "two-attrs"):
            attrs = ["#[strum_discriminants(%s, %s)]" % (a1, a2)] if form == "same-attr" else ["#[strum_discriminants(%s)]" % a1, "#[strum_discriminants(%s)]" % a2]
            valid, _ = valid_variants(r, "EnumDiscriminants", 3)
            add("R4-repeated-" + key, "EnumDiscriminants", enum_item("E", "EnumDiscriminants", attrs, valid), True, form)
    # R5 two default variants
    forms = {"tuple": "(String)", "named": " { raw: String }"}
    for d in DERIVES:
        must = d == "EnumString"
        for f1 in forms:
            for f2 in forms:
                for layout in ("adjacent", "separated"):
                    if not must and not (f1 == "tuple" and f2 == "tuple" and layout == "adjacent"):
                        continue
                    if d in ("VariantArray", "EnumTable"):
                        continue
                    valid, _ = valid_variants(r, d, 2)
                    b1 = "    #[strum(default)]\n    First%s," % forms[f1]
                    b2 = "    #[strum(default)]\n    Second%s," % forms[f2]
                    vs = [b1, b2] + valid if layout == "adjacent" else [b1] + valid + [b2]
                    add("R5-two-defaults", d, enum_item("E", d, [], vs), must, "%s-then-%s/%s" % (f1, f2, layout))
    # R6 default / transparent on a variant without exactly one field
    shapes6 = [("unit", "Bad"), ("empty-tuple", "Bad()"), ("2-tuple", "Bad(String, String)"), ("2-named", "Bad { a: String, b: String }"), ("empty-named", "Bad {}")]
    for d in DERIVES:
        for attr, musts in (("default", ["EnumString", "Display", "ToString"]), ("transparent", TRANSP)):
            must = d in musts
            for shape, decl in shapes6:
                if not must and shape != "unit":
                    continue
                if d in ("VariantArray", "EnumTable") and shape != "unit":
                    continue
                valid, _ = valid_variants(r, d, 2)
                add("R6-%s-arity" % attr, d, enum_item("E", d, [], place(r, valid, ["    #[strum(%s)]\n    %s," % (attr, decl)], r.choice(positions))), must, shape)
    # R7 placeholders on a unit variant
    lits = ["{0}", "{x}", "{}", "pre {0} post", "{x:>4}", "日本{x}", "{é}", "a{{b}}{0}", "{0}{1}", "é{}", "{ x }"[0:1] + "x}"]
    for d in DERIVES:
        must = d == "Display"
        for lit in lits:
            for via in ("to_string", "serialize"):
                if not must and not (lit in ("{0}", "日本{x}") and via == "to_string"):
                    continue
                valid, _ = valid_variants(r, d, 2)
                A = "#[strum(to_string = %s)]" % rs_str(lit) if via == "to_string" else "#[strum(serialize = \"s\", serialize = %s)]" % rs_str("longer " + lit)
                add("R7-unit-placeholder", d, enum_item("E", d, [], place(r, valid, ["    %s\n    Bad," % A], r.choice(positions))), must, "%s via %s" % (lit, via))
    # R8 unknown style
    for d in DERIVES:
        must = d in STR_OUT + PARSE + MSG
        for st in ["Snake_Case", "snakecase", "KEBAB-CASE", "camel case", "", "Title Case", "pascal_case", "SCREAMING SNAKE", "Train-case", "lower_case"]:
            if not must and st not in ("snakecase", ""):
                continue
            valid, _ = valid_variants(r, d, 3)
            add("R8-unknown-style", d, enum_item("E", d, ["#[strum(serialize_all = %s)]" % rs_str(st)], valid), must, st or "<empty>")
    # R9 only one of parse_err_ty / parse_err_fn
    for d in DERIVES:
        must = d == "EnumString"
        for shape, attr in [("ty-only", "parse_err_ty = MyErr"), ("fn-only", "parse_err_fn = my_err"), ("ty-only-path", "parse_err_ty = crate::MyErr"), ("fn-only-path", "parse_err_fn = crate::my_err")]:
            if not must and shape not in ("ty-only", "fn-only"):
                continue
            for with_default in (False, True):
                if not must and with_default:
                    continue
                if d in ("VariantArray", "EnumTable") and with_default:
                    continue
                valid, _ = valid_variants(r, d, 2)
                vs = valid + (["    #[strum(default)]\n    Other(String),"] if with_default else [])
                add("R9-lone-parse-err", d, enum_item("E", d, ["#[strum(%s)]" % attr], vs), must, shape + ("+default" if with_default else ""))
    # R10 unsupported property literal
    litkinds = [("float", "1.5"), ("neg-float", "-1.5"), ("char", "'c'"), ("byte", "b'x'"), ("byte-string", "b\"bytes\""), ("c-string", "c\"cstr\""), ("float-suffix", "2f32")]
    for d in DERIVES:
        must = d == "EnumProperty"
        for shape, lit in litkinds:
            for where in ("only", "first-key", "later-key", "later-group", "repeated-key", "repeated-key-across-groups"):
                if not must and not (shape in ("float", "char") and where == "only"):
                    continue
                if where == "only":
                    A = "#[strum(props(k = %s))]" % lit
                elif where == "first-key":
                    A = "#[strum(props(k = %s, ok = \"s\", n = 3))]" % lit
                elif where == "later-key":
                    A = "#[strum(props(ok = \"s\", n = 3, k = %s))]" % lit
                elif where == "repeated-key":
                    A = "#[strum(props(k = 6, k = %s))]" % lit
                elif where == "repeated-key-across-groups":
                    A = "#[strum(props(k = \"first\"))]\n    #[strum(props(other = 1, k = %s))]" % lit
                else:
                    A = "#[strum(props(ok = \"s\"))]\n    #[strum(props(b = true), props(k = %s))]" % lit
                valid, _ = valid_variants(r, d, 2)
                add("R10-prop-literal", d, enum_item("E", d, [], place(r, valid, ["    %s\n    Bad," % A], r.choice(positions))), must, "%s/%s" % (shape, where))
    # R11 other malformed attribute input: the statement's last sentence ("the macro itself never panics") is checked
    # on these too, under the panic oracle only (whether and where they are rejected is not pinned)
    others = [
        ("unknown-key", "    #[strum(no_such_key)]\n    Bad,"), ("unknown-key-value", "    #[strum(no_such_key = \"v\")]\n    Bad,"),
        ("empty-attr", "    #[strum()]\n    Bad,"), ("bare-attr", "    #[strum]\n    Bad,"), ("serialize-no-value", "    #[strum(serialize)]\n    Bad,"),
        ("serialize-int", "    #[strum(serialize = 5)]\n    Bad,"), ("props-no-value", "    #[strum(props(a))]\n    Bad,"), ("props-empty", "    #[strum(props())]\n    Bad,"),
        ("open-brace", "    #[strum(to_string = \"{\")]\n    Bad(u8),"), ("close-brace", "    #[strum(to_string = \"}\")]\n    Bad(u8),"),
        ("nested-brace", "    #[strum(to_string = \"{a{b}}\")]\n    Bad { a: u8, b: u8 },"), ("empty-placeholder-tuple", "    #[strum(to_string = \"{}\")]\n    Bad(u8),"),
        ("bad-ident-in-braces", "    #[strum(to_string = \"{1x}\")]\n    Bad { x: u8 },"), ("space-in-braces", "    #[strum(to_string = \"{a b}\")]\n    Bad { a: u8 },"),
        ("multibyte-before-placeholder-named", "    #[strum(to_string = \"温度 {x:>5}°\")]\n    Bad { x: u8 },"), ("multibyte-before-placeholder-tuple", "    #[strum(to_string = \"é≈{0:03}\")]\n    Bad(u8),"),
        ("unknown-field-placeholder", "    #[strum(to_string = \"{nope}\")]\n    Bad { x: u8 },"), ("index-out-of-range", "    #[strum(to_string = \"{3}\")]\n    Bad(u8),"),
        ("default_with-not-ident", "    #[strum(default_with = \"crate::dw_a\")]\n    Bad(u8),"),
        ("passthrough-empty", "    #[strum_discriminants()]\n    Bad,"), ("passthrough-bare", "    #[strum_discriminants]\n    Bad,"), ("passthrough-literal", "    #[strum_discriminants(5)]\n    Bad,"),
        ("aci-non-bool", "    #[strum(ascii_case_insensitive = \"yes\")]\n    Bad,"), ("doc-non-string", "    #[doc = 5]\n    Bad,"),
    ]
    for d in DERIVES:
        for shape, bad in others:
            if d in ("VariantArray", "EnumTable") and ("(" in bad.split("\n")[-1] or "{" in bad.split("\n")[-1]):
                continue
            valid, _ = valid_variants(r, d, 2)
            add("R11-other-malformed", d, enum_item("E", d, [], place(r, valid, [bad], r.choice(positions))), False, shape)
    for d in DERIVES:
        for shape, attrs in [("enum-unknown-key", ["#[strum(no_such_key)]"]), ("enum-crate-not-a-path", ["#[strum(crate = \"not a path!\")]"]), ("enum-crate-empty", ["#[strum(crate = \"\")]"]),
                             ("enum-prefix-int", ["#[strum(prefix = 5)]"]), ("enum-discriminants-name-str", ["#[strum_discriminants(name = \"X\")]"]),
                             ("enum-discriminants-derive-empty", ["#[strum_discriminants(derive())]"]), ("all-variants-disabled", [])]:
            valid, _ = valid_variants(r, d, 2)
            if shape == "all-variants-disabled":
                valid = ["    #[strum(disabled)]\n    A,", "    #[strum(disabled)]\n    B,"]
            add("R11-other-malformed", d, enum_item("E", d, attrs, valid), False, shape)
    return out


def run_batches(run, cs, deps):
    for i, c in enumerate(cs):
        c.name = "i%d" % i
    batches = [cs[i:i + 60] for i in range(0, len(cs), 60)]

    def build(job):
        bi, b = job
        src = HEAD
        ranges = {}
        line = src.count("\n") + 1
        for c in b:
            ms = "pub mod %s {\n    use super::*;\n%s}\n" % (c.name, c.src)
            n = ms.count("\n")
            ranges[c.name] = (line, line + n - 1)
            src += ms
            line += n
        p = run.path("c20_%d.rs" % bi)
        open(p, "w").write(src)
        comp = core.rustc(p, run.path("c20_%d.rmeta" % bi), deps, crate_type="lib", extra=["--emit=metadata"])
        return b, comp, ranges

    for b, comp, ranges in core.pmap(build, list(enumerate(batches))):
        per = {c.name: [] for c in b}
        for d in comp.diags:
            if not d["level"].startswith("error"):
                continue
            hit = None
            for (_f, l0, _l1) in d["lines"]:
                if l0 is None:
                    continue
                for c in b:
                    a, z = ranges[c.name]
                    if a <= l0 <= z:
                        hit = c.name
                        break
                if hit:
                    break
            if hit:
                per[hit].append(d)
        for c in b:
            c.diags = per[c.name]
            c.batch_failed = not comp.ok


def single(run, c, deps):
    src = HEAD + "pub mod %s {\n    use super::*;\n%s}\n" % (c.name, c.src)
    p = run.path("c20_single_%s.rs" % c.name)
    open(p, "w").write(src)
    comp = core.rustc(p, p[:-3] + ".rmeta", deps, crate_type="lib", extra=["--emit=metadata"])
    head_lines = HEAD.count("\n")
    inside = [d for d in comp.errors() if any(l0 is not None and l0 > head_lines for (_f, l0, _l1) in d["lines"])]
    return comp, inside, src


def is_panic(d):
    txt = d["message"] + " " + " ".join(d["children"])
    return "panicked" in txt or "internal compiler error" in txt


def check(run):
    deps, vmon = setup(run)
    cs = cells(run)
    run.rule = RULE
    run_batches(run, cs, deps["std"])
    # items with no diagnostic in their batch, or must-reject items: decide by compiling alone where needed
    need_single = [c for c in cs if c.must and not c.diags]
    results = core.pmap(lambda c: (c, single(run, c, deps["std"])), need_single)
    alone = {c.name: res for c, res in results}
    for c in cs:
        run.evaluations += 1
        run.distinct += 1
        run.count("cells/%s/%s" % (c.rule, "must-reject" if c.must else "panic-only"))
        diags = list(c.diags)
        src = HEAD + "pub mod %s {\n    use super::*;\n%s}\n" % (c.name, c.src)
        if c.name in alone:
            comp, inside, src = alone[c.name]
            diags = inside or comp.errors()
            if comp.ok:
                run.count("outcome/silently-accepted")
                run.violation("silent-accept:%s:%s" % (c.rule, c.derive),
                              "%s on derive(%s) [%s] was silently accepted (the item compiles)" % (c.rule, c.derive, c.shape),
                              detail={"item": c.src, "rule": c.rule, "derive": c.derive}, replay_src=src, replay_meta={"kind": "must-reject"})
                continue
            if not inside:
                run.count("outcome/error-elsewhere")
                run.violation("error-not-at-item:%s:%s" % (c.rule, c.derive),
                              "%s on derive(%s) [%s]: compilation fails but no error is reported at the offending item: %s"
                              % (c.rule, c.derive, c.shape, shards.diag_summary(comp)),
                              detail={"item": c.src}, replay_src=src, replay_meta={"kind": "must-reject"})
                continue
        pan = [d for d in diags if is_panic(d)]
        if pan:
            run.count("outcome/panic")
            run.violation("macro-panic:%s:%s:%s" % (c.rule, c.derive, shards.norm_msg(" ".join(pan[0]["children"]) or pan[0]["message"])),
                          "%s on derive(%s) [%s]: the derive panicked: %s | %s" % (c.rule, c.derive, c.shape, pan[0]["message"], " | ".join(pan[0]["children"])[:300]),
                          detail={"item": c.src, "rule": c.rule, "derive": c.derive}, replay_src=src, replay_meta={"kind": "no-panic"})
            continue
        if c.must:
            run.count("outcome/rejected-at-item")
        else:
            run.count("outcome/no-panic")
    for c in [c for c in cs if c.must][:: max(1, len(cs) // 25)]:
        run.samples.append({"rule": c.rule, "derive": c.derive, "shape": c.shape, "item": c.src, "observed": (c.diags[0]["message"] if c.diags else "rejected when compiled alone")})
    run.extra["cells"] = len(cs)
    run.extra["must_reject_cells"] = sum(1 for c in cs if c.must)
    run.assumptions = ["rustc reports every derive's compile_error!/panic as an error diagnostic with a primary span at the derive or inside the item",
                       "items live in separate modules, so diagnostics do not cross-talk"]
