"""C18 — a custom parse error is the user's function applied to the exact rejected input."""
from .common import *
from .. import strgen
from . import c01

RULE = ("programs: seeded random enums of C01's domain without a default variant, each with parse_err_ty/parse_err_fn (error "
        "type given as plain path, module path, generic type, boxed trait object) and a control group with the standard error; a "
        "second group of field-less use_phf enums with custom errors; inputs: C01's classes. The user function logs every "
        "argument it receives (thread_local); oracle: rejected input s => Err == f(s) built from exactly s and log == [s]; accepted "
        "input => log empty; FromStr::Err and TryFrom::Error type-checked by annotation. non-trivial: input is not a verbatim "
        "spelling; distinct = (enum, input).")

ERR_HEAD = """
thread_local! { pub static ERRLOG: std::cell::RefCell<Vec<String>> = std::cell::RefCell::new(Vec::new()); }
pub fn errlog_drain() -> Vec<String> { ERRLOG.with(|l| std::mem::take(&mut *l.borrow_mut())) }
#[derive(Debug, PartialEq, Clone)]
pub struct MyErr(pub String);
impl std::fmt::Display for MyErr { fn fmt(&self, f: &mut std::fmt::Formatter) -> std::fmt::Result { write!(f, "MyErr({})", self.0) } }
impl std::error::Error for MyErr {}
#[derive(Debug, PartialEq, Clone)]
pub struct Rejected<T>(pub T, pub usize);
pub mod errs {
    #[derive(Debug, PartialEq, Clone)]
    pub enum Deep { Unknown { input: String }, Other }
    pub mod fns {
        pub fn deep(s: &str) -> super::Deep { super::super::ERRLOG.with(|l| l.borrow_mut().push(s.to_string())); super::Deep::Unknown { input: s.to_string() } }
    }
}
pub fn my_err(s: &str) -> MyErr { ERRLOG.with(|l| l.borrow_mut().push(s.to_string())); MyErr(format!("<{}>", s)) }
pub fn rejected(s: &str) -> Rejected<String> { ERRLOG.with(|l| l.borrow_mut().push(s.to_string())); Rejected(s.to_string(), s.len()) }
pub fn boxed(s: &str) -> Box<dyn std::error::Error + Send + Sync> { ERRLOG.with(|l| l.borrow_mut().push(s.to_string())); Box::new(MyErr(s.to_string())) }
// user functions whose names a template might also want to use for its own helpers
pub fn not_found(s: &str) -> MyErr { my_err(s) }
pub fn parse_error(s: &str) -> MyErr { my_err(s) }
pub fn from_str(s: &str) -> MyErr { my_err(s) }
pub fn try_from(s: &str) -> MyErr { my_err(s) }
pub fn default(s: &str) -> MyErr { my_err(s) }
pub fn fallback(s: &str) -> MyErr { my_err(s) }
pub fn error(s: &str) -> MyErr { my_err(s) }
pub fn phf(s: &str) -> MyErr { my_err(s) }
pub fn parse_err(s: &str) -> MyErr { my_err(s) }
// functions that are generic over their argument
#[derive(Debug, PartialEq, Clone)]
pub struct FromErr(pub String);
impl<'a> From<&'a str> for FromErr { fn from(s: &'a str) -> Self { ERRLOG.with(|l| l.borrow_mut().push(s.to_string())); FromErr(format!("from:{}", s)) } }
pub fn lenient<S: AsRef<str>>(s: S) -> FromErr { ERRLOG.with(|l| l.borrow_mut().push(s.as_ref().to_string())); FromErr(format!("lenient:{}", s.as_ref())) }
"""

# (parse_err_ty, parse_err_fn, rust closure computing the expected Debug string of the error from s)
ERR_KINDS = [
    ("MyErr", "my_err", '|s: &str| format!("{:?}", MyErr(format!("<{}>", s)))'),
    ("errs::Deep", "errs::fns::deep", '|s: &str| format!("{:?}", errs::Deep::Unknown { input: s.to_string() })'),
    ("Rejected<String>", "rejected", '|s: &str| format!("{:?}", Rejected(s.to_string(), s.len()))'),
    ("Box<dyn std::error::Error + Send + Sync>", "boxed", '|s: &str| format!("{:?}", MyErr(s.to_string()))'),
    ("crate::MyErr", "crate::my_err", '|s: &str| format!("{:?}", MyErr(format!("<{}>", s)))'),
] + [("MyErr", nm, '|s: &str| format!("{:?}", MyErr(format!("<{}>", s)))') for nm in
     ("not_found", "parse_error", "from_str", "try_from", "default", "fallback", "error", "phf", "parse_err")] + [
    ("FromErr", "FromErr::from", '|s: &str| format!("{:?}", FromErr(format!("from:{}", s)))'),
    ("FromErr", "From::from", '|s: &str| format!("{:?}", FromErr(format!("from:{}", s)))'),
    ("FromErr", "lenient", '|s: &str| format!("{:?}", FromErr(format!("lenient:{}", s)))'),
    ("String", "String::from", '|s: &str| format!("{:?}", s.to_string())'),
]


def glue(spec, kind, via_macro=False):
    ty, fn, exp = kind
    spec.parse_err = (ty, fn)
    if via_macro and "<" not in ty:
        # the enum is produced by a macro_rules! template and the error type / function arrive as macro arguments
        spec.macro_params = [("parse_err_ty = ", ty, "path"), ("parse_err_fn = ", fn, "path")]
    if any(v.default and not v.disabled for v in spec.variants):
        ty = "strum::ParseError"      # with a catch-all variant no error is ever produced; both impls use the standard type
    body = strgen.default_with_fns(spec) + "\n" + spec.render() + "\n"
    body += ("fn _type_check() { let _a: Result<%s, %s> = <%s as std::str::FromStr>::from_str(\"\"); "
             "let _b: Result<%s, %s> = <%s as std::convert::TryFrom<&str>>::try_from(\"\"); }\n"
             % (spec.ty(), ty, spec.ty(), spec.ty(), ty, spec.ty()))
    body += "pub fn drive(m: &mut vmon::Mon) {\n"
    body += "    let drain = || errlog_drain();\n"
    body += strgen.parse_glue(spec, extra=strgen.recased_extras(spec), err_expr=exp, log_drain=("None" if fn == "String::from" else "Some(&drain)")) + "\n"
    body += "}\n"
    return body


def check(run):
    deps, vmon = setup(run, cfgs=("std", "phf"))
    thorough = run.tier == "thorough"
    r = gen.rng_for(run.seed, "c18")
    units, units_phf = [], []
    spec_by_unit = {}
    n = 3000 if thorough else 450
    for i in range(n):
        s = strgen.build(r, "R%d" % i, ["EnumString"], allow_default=(i % 10 == 7), allow_disabled_default=True)
        if i % 5 == 4:
            g = c01.glue(s)           # control: standard error
            tag = "std-error"
        else:
            k = ERR_KINDS[i % len(ERR_KINDS)]
            g = glue(s, k, via_macro=(i % 4 == 1))
            tag = "custom:" + k[0] + (",macro" if s.macro_params else "")
        u = shards.Unit("u_" + s.name.lower(), g, meta={"enum_src": s.render(), "bare_src": s.render_bare()}, sig=tag + "," + s.signature(), head=(strgen.CAPTURE_HEAD, ERR_HEAD))
        units.append(u)
        spec_by_unit[u.name] = s
    for i in range(1000 if thorough else 180):
        s = strgen.build(r, "P%d" % i, ["EnumString"], allow_default=False, fieldless=True, allow_disabled_default=True)
        s.use_phf = True
        s.std_derives = ["Debug", "PartialEq", "Clone"]
        k = ERR_KINDS[i % len(ERR_KINDS)]
        u = shards.Unit("u_" + s.name.lower(), glue(s, k), meta={"enum_src": s.render(), "bare_src": s.render_bare()}, sig="phf,custom:" + k[0] + "," + s.signature(), head=(strgen.CAPTURE_HEAD, ERR_HEAD))
        units_phf.append(u)
        spec_by_unit[u.name] = s
    run.rule = RULE
    samples = standard_flow(run, units, deps["std"], vmon, profiles=("fast",), tag="c18")
    s2 = standard_flow(run, units_phf, deps["phf"], vmon, profiles=("fast",), tag="c18p")
    samples.update(s2)
    # the custom-error arm must also exist where there is no std: compile-only differential (std vs #![no_std]) on enums with
    # a core-only error type, reusing C19's machinery
    from . import c19
    nspecs = []
    guard = 0
    while len(nspecs) < (120 if thorough else 30) and guard < 4000:
        guard += 1
        ns = c19.fam_data(r, "NS%d" % guard)
        if ns is not None and ns.parse_err:
            ns.derives = ["EnumString"]
            ns.extra_enum_attrs = []
            nspecs.append(ns)
    dn = core.build_deps("nostd")
    base = c19.compile_cfg(run, nspecs, "d_std", deps["std"])
    nost = c19.compile_cfg(run, nspecs, "a_nostd", dn)
    for ns in nspecs:
        if base[ns.name] is not None:
            continue
        run.evaluations += 1
        run.distinct += 1
        run.count("nostd-custom-error/compiled")
        if nost[ns.name] is not None:
            summ, src, rendered, _dcfg = nost[ns.name]
            run.violation("custom-error:nostd:%s" % shards.norm_msg(summ), "EnumString with parse_err_ty/parse_err_fn compiles with std but not under #![no_std]: %s" % summ,
                          detail={"enum": ns.render(), "diagnostics": rendered}, replay_src=src, replay_meta={"kind": "compile", "config": "a_nostd"})
    c01.offline_recheck(run, samples, spec_by_unit)
    pick_samples(run, samples, {u.name: u for u in units + units_phf})
    run.extra["programs"] = len(units) + len(units_phf)
    run.assumptions = ["thread_local log inside the user function records every invocation", "derive(Debug) of std is correct"]
