"""C09 — EnumDiscriminants mirrors the enum: same variants, order, repr, discriminants."""
from .common import *
from . import c06

RULE = ("programs: variant kinds x generics/lifetimes/where-clauses (incl. associated-type bounds) x #[repr] (ints, align+int) x "
        "explicit discriminants (on unit AND data variants) x name()/vis()/derive()/pass-through strum attributes at enum and variant "
        "level, the enum living in a private module with private/pub visibility; events per sample value e (default and non-default "
        "payloads): From<&E>, From<E>, discriminant(), `d as R`; per type: derived EnumIter list, Display/EnumString/VariantNames "
        "under the passed-through serialize_all, Hash/Ord usable, size_of/align_of mirror the repr, the type is nameable from the "
        "parent module exactly under the requested name; plus compile-fail probes that a restricted vis() really restricts. "
        "oracle: variant identifier and discriminant from the model, cross-checked against rustc ground truth. "
        "non-trivial: everything except unit-only enums without attributes; distinct = (enum, api, value).")

VIS = [None, "pub", "pub(crate)", "pub(super)", "pub(in crate)"]
REPRS = [None, None, "u8", "i8", "u16", "i32", "u64", "isize", "align(8), u8", "C"]


def build(r, name, n=None, generics=None):
    n = n or (r.choice([1, 1, 2, 3, 4, 5, 7]) if r.random() > 0.01 else 35)
    repr_ = r.choice(REPRS)
    int_repr = None if repr_ in (None, "C") else repr_.split(",")[-1].strip()
    fieldless = r.random() < 0.35
    if fieldless:
        generics = None
    idents = gen.pick_idents(r, n)
    vs = []
    for i in range(n):
        kind = "unit" if fieldless else r.choice(["unit", "tuple", "named"])
        v = Variant(ident=idents[i], kind=kind, fields=gen.rand_fields(r, kind, nmax=2, generics=generics,
                                                                       types=["u8", "i32", "bool", "String", "OptU8", "VecU8", "char"]))
        vs.append(v)
    spec = EnumSpec(name=name, variants=vs, derives=["EnumDiscriminants"], std_derives=["Debug", "Clone"], repr=repr_, generics=generics)
    gen.ensure_generics_used(r, spec)
    # explicit discriminants: allowed on data variants only with an int repr
    rty, lo, hi = c06.REPRS[int_repr]
    if (int_repr is not None or all(v.kind == "unit" for v in spec.variants)) and r.random() < 0.7:
        prev = None
        used = set()
        for v in spec.variants:
            nxt = 0 if prev is None else prev + 1
            if r.random() < 0.5 or nxt in used or nxt > hi:
                val = None
                for _ in range(50):
                    cand = r.randint(max(lo, -40), min(hi, 120))
                    if cand not in used and cand + len(spec.variants) < hi:
                        val = cand
                        break
                if val is None:
                    return None
                v.disc = (c06.render_value(r, val, rty, lo, hi, None), val)
            else:
                val = nxt
            if val in used:
                return None
            used.add(val)
            prev = val
    spec.int_repr = int_repr
    # discriminant options
    spec.dname = r.choice([None, None, "Kind%s" % name, "%sTag" % name])
    spec.dvis = r.choice(VIS)
    spec.enum_private = r.random() < 0.4 and spec.dvis not in (None,)
    spec.vis = "" if spec.enum_private else r.choice(["pub", "pub", "pub(crate)", "pub(super)"])
    spec.dstyle = r.choice([None, "snake_case", "SCREAMING-KEBAB-CASE", "title_case"])
    spec.no_derive = r.random() < 0.15
    spec.dderives = ["strum::EnumIter"] + r.sample(["Hash", "PartialOrd, Ord", "strum::Display", "strum::EnumString", "strum::VariantNames", "strum::AsRefStr", "strum::EnumCount"], r.randint(0, 5))
    if spec.dstyle and not any("Display" in d for d in spec.dderives):
        spec.dderives.append("strum::Display")
    if spec.no_derive:
        # no derive(..) list at all: the other enum-level items (name, vis, plain pass-through attributes) must still apply
        spec.dderives = []
        spec.dstyle = None
        spec.pass_repr = r.choice([None, "u16", "u32"]) if spec.repr is None else None
    spec.dsplit = r.random() < 0.5
    spec.custom = {}
    if any("Display" in d or "EnumString" in d or "AsRefStr" in d for d in spec.dderives) and not spec.no_derive:
        for i, v in enumerate(spec.variants):
            if r.random() < 0.2:
                spec.custom[i] = "custom-%d" % i
                v.extra_attrs.append("#[strum_discriminants(strum(to_string = %s))]" % rs_str(spec.custom[i]))
    for v in spec.variants:
        if r.random() < 0.15:
            v.extra_attrs.append("#[strum_discriminants(doc = \"passed through\")]")
        if r.random() < 0.1:
            v.extra_attrs.append("#[allow(dead_code)]")
    items = []
    if spec.dname:
        items.append("name(%s)" % spec.dname)
    if spec.dvis is not None:
        items.append("vis(%s)" % spec.dvis)
    if spec.dderives:
        items.append("derive(%s)" % ", ".join(spec.dderives))
    if getattr(spec, "pass_repr", None):
        items.append("repr(%s)" % spec.pass_repr)      # a plain pass-through attribute for the generated enum only
    # a second pass-through group with the same path: both must reach the generated enum
    spec.dprefix = r.choice(["d.", "K::", "é"]) if (spec.dderives and r.random() < 0.4) else None
    if spec.dstyle and spec.dprefix and r.random() < 0.25:
        items.append("strum(serialize_all = %s, prefix = %s)" % (rs_str(spec.dstyle), rs_str(spec.dprefix)))
    else:
        if spec.dstyle:
            items.append("strum(serialize_all = %s)" % rs_str(spec.dstyle))
        if spec.dprefix:
            items.insert(r.randint(0, len(items)), "strum(prefix = %s)" % rs_str(spec.dprefix))
    if r.random() < 0.3:
        items.append("allow(dead_code)")
    if r.random() < 0.3:
        items.append("doc = \"generated discriminants\"")
    if spec.dsplit:
        spec.extra_enum_attrs = ["#[strum_discriminants(%s)]" % it for it in items]
    else:
        spec.extra_enum_attrs = ["#[strum_discriminants(%s)]" % ", ".join(items)]
    gen.add_noise(r, spec, skip=("std_default", "nest"))
    rv = gen.rawify(r, spec, explicit_names=False)
    if rv is not None and spec.variants.index(rv) not in spec.custom and not spec.no_derive:
        i = spec.variants.index(rv)
        spec.custom[i] = "raw-custom-%d" % i
        rv.extra_attrs.append("#[strum_discriminants(strum(to_string = %s))]" % rs_str(spec.custom[i]))
    spec.tags = ["vis=%s" % spec.dvis, "private" if spec.enum_private else "pub", "name" if spec.dname else "defname"]
    return spec


def glue(spec):
    dn = spec.dname or (spec.name + "Discriminants")
    discs = model.discriminants(spec)
    names = [v.ident.replace("r#", "") for v in spec.variants]     # derive(Debug) prints raw identifiers without r#
    ty = spec.ty()
    fieldless = all(v.kind == "unit" for v in spec.variants)
    rty = spec.int_repr or "isize"
    has_into = spec.dvis in (None, "pub")
    inner = spec.render() + "\n"
    nod = getattr(spec, "no_derive", False)
    v0 = spec.variants[0]
    if nod:
        inner += "pub fn first() -> %s { <%s as From<&%s>>::from(&%s) }\n" % (dn, dn, ty, v0.ctor(spec.path(), v0.default_exprs()))
    else:
        inner += "pub fn first() -> %s { <%s as strum::IntoEnumIterator>::iter().next().unwrap() }\n" % (dn, dn)
    inner += "pub fn work(m: &mut vmon::Mon) {\n"
    inner += "    type R = %s;\n" % rty
    inner += "    " + samples_vec(spec, list(range(len(spec.variants)))) + "\n"
    inner += "    let names: &[&str] = %s;\n" % str_slice(names)
    inner += "    let discs: &[i128] = &[%s];\n" % ", ".join(str(d) for d in discs)
    inner += "    for (idx, e) in samples.iter() {\n"
    inner += "        let subj = format!(\"{:?}\", e);\n"
    inner += "        let d1: %s = <%s as From<&%s>>::from(e);\n" % (dn, dn, ty)
    inner += "        let d2: %s = <%s as From<%s>>::from(e.clone());\n" % (dn, dn, ty)
    inner += "        m.expect_str(\"disc\", \"From<&E>\", &subj, &format!(\"{:?}\", d1), names[*idx], true);\n"
    inner += "        m.expect_str(\"disc\", \"From<E>\", &subj, &format!(\"{:?}\", d2), names[*idx], true);\n"
    if has_into:
        inner += "        let d3: %s = strum::IntoDiscriminant::discriminant(e);\n" % dn
        inner += "        m.expect_str(\"disc\", \"discriminant()\", &subj, &format!(\"{:?}\", d3), names[*idx], true);\n"
        inner += "        let d4: <%s as strum::IntoDiscriminant>::Discriminant = d3;\n" % ty
    inner += "        m.expect_eq(\"disc\", \"d as R\", &subj, &((d1 as R) as i128), &discs[*idx], true);\n"
    if fieldless and not spec.generics:
        inner += "        m.expect_eq(\"disc\", \"d as R == e as R\", &subj, &((d1 as R) as i128), &((e.clone() as R) as i128), true);\n"
    elif spec.int_repr is not None:
        inner += "        let tag: R = unsafe { *(e as *const %s as *const R) };\n" % ty
        inner += "        m.expect_eq(\"disc\", \"d as R == tag(e)\", &subj, &((d1 as R) as i128), &(tag as i128), true);\n"
    inner += "    }\n"
    if nod:
        if getattr(spec, "pass_repr", None):
            inner += "    m.expect_eq(\"disc-type\", \"size_of::<D>() under a pass-through repr\", \"repr\", &std::mem::size_of::<%s>(), &std::mem::size_of::<%s>(), true);\n" % (dn, spec.pass_repr)
        inner += "}\n"
        body = "mod inner {\n    use super::*;\n" + inner + "}\n"
        body += "pub fn drive(m: &mut vmon::Mon) {\n"
        body += "    let d: inner::%s = inner::first();\n" % dn
        body += "    m.expect_str(\"disc-type\", \"nameable from parent module\", %s, &format!(\"{:?}\", d), %s, true);\n" % (rs_str(dn), rs_str(names[0]))
        body += "    inner::work(m);\n"
        body += "}\n"
        return body
    inner += "    let listed: Vec<String> = <%s as strum::IntoEnumIterator>::iter().map(|d| format!(\"{:?}\", d)).collect();\n" % dn
    inner += "    let want: Vec<String> = names.iter().map(|s| s.to_string()).collect();\n"
    inner += "    m.expect_eq(\"disc-type\", \"D::iter() (requested derive)\", \"variant list\", &listed, &want, true);\n"
    inner += "    let all: Vec<%s> = <%s as strum::IntoEnumIterator>::iter().collect();\n" % (dn, dn)
    inner += "    let vals: Vec<i128> = all.iter().map(|d| (*d as R) as i128).collect();\n"
    inner += "    m.expect_eq(\"disc-type\", \"D values\", \"discriminant list\", &vals, &discs.to_vec(), true);\n"
    parsed = [spec.custom.get(i, model.convert_case(v.ident, spec.dstyle)) for i, v in enumerate(spec.variants)]
    shown = [(getattr(spec, "dprefix", None) or "") + x for x in parsed]      # the prefix is part of the printed name only
    dd = " ".join(spec.dderives)
    if "Display" in dd:
        inner += "    let shown: Vec<String> = all.iter().map(|d| d.to_string()).collect();\n"
        inner += "    m.expect_eq(\"disc-type\", \"Display via pass-through strum(..)\", \"names\", &shown, &(%s).iter().map(|s| s.to_string()).collect::<Vec<String>>(), true);\n" % str_slice(shown)
    if "AsRefStr" in dd:
        inner += "    let shown2: Vec<String> = all.iter().map(|d| { let s: &str = d.as_ref(); s.to_string() }).collect();\n"
        inner += "    m.expect_eq(\"disc-type\", \"AsRefStr via pass-through strum(..)\", \"names\", &shown2, &(%s).iter().map(|s| s.to_string()).collect::<Vec<String>>(), true);\n" % str_slice(shown)
    if "VariantNames" in dd:
        inner += "    vmon::names::check_table(m, \"disc-type\", \"D::VARIANTS (requested derive)\", <%s as strum::VariantNames>::VARIANTS, %s, true);\n" % (dn, str_slice(shown))
    if "EnumCount" in dd:
        inner += "    m.expect_eq(\"disc-type\", \"D::COUNT\", \"count\", &<%s as strum::EnumCount>::COUNT, &%d, true);\n" % (dn, len(names))
    if "EnumString" in dd and len(set(parsed)) == len(parsed):
        inner += "    for (i, s) in (%s).iter().enumerate() { m.expect_eq(\"disc-type\", \"D::from_str (requested derive)\", s, &<%s as std::str::FromStr>::from_str(s).ok(), &Some(all[i]), true); }\n" % (str_slice(parsed), dn)
    if "Hash" in dd:
        inner += "    let hs: std::collections::HashSet<%s> = all.iter().cloned().collect();\n" % dn
        inner += "    m.expect_eq(\"disc-type\", \"Hash (requested derive)\", \"set size\", &hs.len(), &all.len(), true);\n"
    if "Ord" in dd:
        inner += "    for i in 0..all.len() { for j in 0..all.len() { m.expect_eq(\"disc-type\", \"Ord (requested derive)\", \"pair\", &all[i].cmp(&all[j]), &discs[i].cmp(&discs[j]), true); } }\n"
    # repr mirrored
    if spec.repr == "C":
        inner += "    m.expect_eq(\"disc-type\", \"size_of::<D>() under repr(C)\", \"repr\", &std::mem::size_of::<%s>(), &std::mem::size_of::<std::os::raw::c_int>(), true);\n" % dn
    if spec.repr is not None and spec.repr != "C":
        inner += "    m.expect_eq(\"disc-type\", \"size_of::<D>()\", \"repr\", &std::mem::size_of::<%s>(), &%s, true);\n" % (
            dn, "8usize" if "align(8)" in spec.repr else "std::mem::size_of::<R>()")
        inner += "    m.expect_eq(\"disc-type\", \"align_of::<D>()\", \"repr\", &std::mem::align_of::<%s>(), &%s, true);\n" % (
            dn, "8usize" if "align(8)" in spec.repr else "std::mem::align_of::<R>()")
    inner += "}\n"
    body = "mod inner {\n    use super::*;\n" + inner + "}\n"
    body += "pub fn drive(m: &mut vmon::Mon) {\n"
    # nameable from the parent module under the requested name
    body += "    let d: inner::%s = inner::first();\n" % dn
    body += "    m.expect_str(\"disc-type\", \"nameable from parent module\", %s, &format!(\"{:?}\", d), %s, true);\n" % (rs_str(dn), rs_str(names[0]))
    body += "    inner::work(m);\n"
    body += "}\n"
    return body


NEG_PROBES = [
    ("vis(pub(self)) keeps the type private to its module",
     "mod inner { #[derive(strum::EnumDiscriminants)] #[strum_discriminants(vis(pub(self)))] pub enum E { A, B(u8) } }\nfn f(_x: inner::EDiscriminants) {}\nfn main() {}\n", "E0603"),
    ("vis(pub(super)) does not leak to the crate root",
     "mod outer { pub mod inner { #[derive(strum::EnumDiscriminants)] #[strum_discriminants(vis(pub(super)), name(Tag))] pub enum E { A, B(u8) } } }\nfn f(_x: outer::inner::Tag) {}\nfn main() {}\n", "E0603"),
    ("name(X) replaces the default name",
     "#[derive(strum::EnumDiscriminants)] #[strum_discriminants(name(Tag))] pub enum E { A, B(u8) }\nfn f(_x: EDiscriminants) {}\nfn main() {}\n", "E0425"),
    ("a private enum keeps its discriminants private by default",
     "mod inner { #[derive(strum::EnumDiscriminants)] enum E { A, B(u8) } }\nfn f(_x: inner::EDiscriminants) {}\nfn main() {}\n", "E0603"),
]


def neg_probes(run, deps):
    def go(c):
        i, (title, src, code) = c
        p = run.path("neg_%d.rs" % i)
        open(p, "w").write("#![allow(warnings)]\n" + src)
        return c, core.rustc(p, run.path("neg_%d.bin" % i), deps)
    for (i, (title, src, code)), c in core.pmap(go, list(enumerate(NEG_PROBES))):
        run.evaluations += 1
        run.distinct += 1
        run.count("neg-probes")
        codes = [d.get("code") for d in c.errors()]
        if c.ok or code not in codes:
            run.violation("disc:vis-probe:%d" % i, "compile-fail probe '%s' %s" % (title, "compiled" if c.ok else "failed with %s instead of %s" % (codes, code)),
                          replay_src=src, replay_meta={"kind": "compile-fail"})
        else:
            run.samples.append({"probe": title, "observed": "rejected with " + code})


def check(run):
    deps, vmon = setup(run)
    thorough = run.tier == "thorough"
    r = gen.rng_for(run.seed, "c09")
    specs = []
    k = 0
    want = 7000 if thorough else 2000
    while len(specs) < want:
        k += 1
        g = r.choice([None, None, "T", "a", "aT", "aTw", "I", "aI", "N", "TU", "Tdef", "TNdef", "Tw", "TwU", "aTwd", "Tnd", "NT"])
        s = build(r, "E%d" % k, generics=g)
        if s is not None:
            specs.append(s)
    # systematic: single-variant enums with every repr (a guard on variants.len() must not drop the repr)
    r0 = gen.rng_for(0, "c09-sys")
    for rp in REPRS[2:]:
        for _ in range(2):
            k += 1
            s = None
            while s is None or getattr(s, "pass_repr", None):     # (a pass-through repr would conflict with the one set here)
                s = build(r0, "E%d" % k, n=1)
            s.repr = rp
            s.int_repr = None if rp == "C" else rp.split(",")[-1].strip()
            if all(v.disc is None or c06.REPRS[s.int_repr][1] <= v.disc[1] <= c06.REPRS[s.int_repr][2] for v in s.variants) and \
               (s.int_repr is not None or all(v.kind == "unit" or v.disc is None for v in s.variants)):
                specs.append(s)
    units = [shards.Unit("u_" + s.name.lower(), glue(s), meta={"enum_src": s.render(), "bare_src": s.render_bare()}, sig=s.signature()) for s in specs]
    run.rule = RULE
    samples = standard_flow(run, units, deps["std"], vmon, profiles=("debug",), tag="c09")
    neg_probes(run, deps["std"])
    pick_samples(run, samples, {u.name: u for u in units})
    run.extra["programs"] = len(units)
    run.assumptions = ["derive(Debug)/derive(Clone) of std are correct", "`d as R`, `e as R` and the tag of a #[repr(int)] enum are rustc's discriminants"]
