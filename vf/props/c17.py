"""C17 — Display renders fixed names like a str and placeholders like format!."""
from .common import *
from .. import strgen
from . import c03

RULE = ("programs: variant kinds (unit/tuple/named, field names incl. `f`, `s`, `field0`) x naming attributes x prefix x serialize_all x "
        "multi-byte names; events for fixed names: format!(spec, v) for EVERY spec in fill {none,' ','*','é'} x align {none,<,^,>} x "
        "width 0..16 x precision {none,0..8} (+ sign/#/0 flags) compared with std's formatting of the canonical &str from the "
        "model; events for placeholder variants: to_string()/format!(\"{}\") compared with the generator-emitted "
        "format!(literal, fields..) over all subsets and orders of named fields, all orders of tuple fields, repeated uses, nested "
        "specs ({0:>4}, {x:03}, {y:?}, {z:.2}), escaped braces next to placeholders, payload extremes. non-trivial: all; distinct = "
        "(enum, value, spec).")

PH_TYPES = {
    # type key -> list of (format spec suffix usable with it)
    "u8": ["", ":>4", ":03", ":?", ":#x", ":<3", ":^5", ":+"],
    "i32": ["", ":>6", ":+", ":08", ":?", ":e" ],
    "i64": ["", ":>21", ":x"],
    "bool": ["", ":>6", ":?"],
    "char": ["", ":?", ":>3"],
    "String": ["", ":>8", ":?", ":.2", ":*^7", ":.0"],
    "F64": ["", ":.2", ":>9.3", ":e", ":+.1", ":?"],
    "u16": ["", ":#06x", ":b"],
}


def placeholder_variant(r, ident, kind):
    """Returns (Variant, literal) with a to_string literal using placeholders."""
    tys = [r.choice(list(PH_TYPES)) for _ in range(r.randint(1, 3))]
    esc = ["", "{{", "}}", "{{}}", "{{x}}", " ", "-", "é", "{{{{", "}}}}", "{{0}}", "{{0", "{{1}}", "{{f}}", "{{field0}}", "{{s", "0}}", "{{:>4}}"]
    if kind == "tuple":
        fields = [Field(ty=t) for t in tys]
        order = list(range(len(tys)))
        r.shuffle(order)
        # all fields must be used; some twice
        uses = order + ([r.choice(order)] if r.random() < 0.4 else [])
        r.shuffle(uses)
        lit = r.choice(esc)
        for u in uses:
            lit += "{%d%s}" % (u, r.choice(PH_TYPES[tys[u]])) + r.choice(esc)
        v = Variant(ident=ident, kind="tuple", fields=fields, to_string=lit)
        return v
    names = r.sample(["f", "s", "x", "idx", "value", "field0", "name", "a", "b", "fmt", "inner"], len(tys))
    fields = [Field(ty=t, name=nm) for t, nm in zip(tys, names)]
    k = r.randint(1, len(tys))
    subset = r.sample(range(len(tys)), k)
    uses = subset + ([r.choice(subset)] if r.random() < 0.4 else [])
    r.shuffle(uses)
    lit = r.choice(esc)
    for u in uses:
        lit += "{%s%s}" % (names[u], r.choice(PH_TYPES[tys[u]])) + r.choice(esc)
    return Variant(ident=ident, kind="named", fields=fields, to_string=lit)


def used_names(lit):
    s = lit.replace("{{", "").replace("}}", "")
    out = []
    i = 0
    while i < len(s):
        if s[i] == "{":
            j = s.index("}", i)
            out.append(s[i + 1:j].split(":")[0])
            i = j
        i += 1
    return out


def glue(spec):
    ty = spec.ty()
    P = spec.path()
    names = c03.canon_list(spec)
    body = spec.render() + "\n"
    body += "pub fn drive(m: &mut vmon::Mon) {\n"
    for i, v in enumerate(spec.variants):
        if v.disabled:
            continue
        payloads = [v.default_exprs()] + ([v.sample_exprs(0), v.sample_exprs(1)] if v.fields else [])
        is_ph = v.to_string is not None and used_names(v.to_string)
        for pi, exprs in enumerate(payloads):
            ctor = v.ctor(P, exprs)
            body += "    { let e: %s = %s; let subj = format!(\"{:?}\", e);\n" % (ty, ctor)
            if is_ph:
                lit = (spec.prefix or "") + v.to_string
                if v.kind == "tuple":
                    args = ", ".join(exprs)
                else:
                    un = set(used_names(v.to_string))
                    args = ", ".join("%s = %s" % (f.name, e) for f, e in zip(v.fields, exprs) if f.name in un)
                body += "      let want = format!(%s, %s);\n" % (rs_str(lit), args)
                body += "      m.expect_str(\"placeholder\", \"to_string()\", &subj, &e.to_string(), &want, true);\n"
                body += "      m.expect_str(\"placeholder\", \"format!(\\\"{}\\\", v)\", &subj, &format!(\"{}\", e), &want, true);\n"
                body += "      m.expect_str(\"placeholder\", \"format!(\\\"[{}]\\\", v)\", &subj, &format!(\"[{}]\", e), &format!(\"[{}]\", want), true);\n"
            else:
                if pi == 0:
                    body += "      vmon::fmt::fmt_grid(m, \"fixed-name\", &subj, &e, %s, 16, 8, true);\n" % rs_str(names[i])
                else:
                    body += "      vmon::fmt::fmt_grid(m, \"fixed-name\", &subj, &e, %s, 6, 3, false);\n" % rs_str(names[i])
            body += "    }\n"
    body += "}\n"
    return body


def build(r, name):
    n = r.choice([1, 2, 3, 4, 5])
    style = r.choice([None, None] + model.STYLE_STRINGS)
    prefix = r.choice([None, None, "", "pre_", "é界/", "NS::"])
    idents = gen.pick_idents(r, n)
    vs = []
    for i in range(n):
        kind = r.choice(["unit", "tuple", "named"])
        if kind != "unit" and r.random() < 0.45:
            v = placeholder_variant(r, idents[i], kind)
        else:
            v = Variant(ident=idents[i], kind=kind, fields=gen.rand_fields(r, kind, nmax=2))
            x = r.random()
            if x < 0.25:
                v.to_string = strgen.rand_spelling(r, True, True)
            elif x < 0.5:
                v.serialize = gen.distinct_len_spellings(r, r.choice([1, 2, 3]), [strgen.rand_spelling(r) for _ in range(30)], [])
                if not model.unambiguous_longest(v.serialize):
                    v.serialize = v.serialize[:1]
            if any(strgen.has_placeholder_braces(s) for s in v.serialize + [v.to_string or ""]):
                v.serialize, v.to_string = [], None
        if prefix and v.to_string is not None and r.random() < 0.25:
            v.to_string = prefix + v.to_string     # an explicit name that already begins with the prefix text
        v.disabled = r.random() < 0.1
        v.split_attrs = r.choice([0, 1, 2])
        vs.append(v)
    if r.random() < 0.35:
        # a default variant WITH to_string has a fixed canonical name like any other variant
        dv = Variant(ident="CatchAll%s" % name, kind=r.choice(["tuple", "named"]), default=True, to_string=r.choice(["dflt", "catch all", "é-default", "d"]))
        dv.fields = [Field(ty="String")] if dv.kind == "tuple" else [Field(ty="String", name=r.choice(["f", "s", "inner"]))]
        vs.insert(r.randint(0, len(vs)), dv)
    return gen.maybe_macro_wrap(r, EnumSpec(name=name, variants=vs, derives=["Display"], serialize_all=style, prefix=prefix, std_derives=["Debug", "Clone"]))


def check(run):
    deps, vmon = setup(run)
    thorough = run.tier == "thorough"
    r = gen.rng_for(run.seed, "c17")
    specs = [build(r, "E%d" % i) for i in range(4000 if thorough else 600)]
    # systematic: the three kinds x multi-byte fixed names x prefix
    k = 0
    for nm in ["café", "日本酒", "añejo", "ß", "a", "", "abcdefghijklmnopqrstuvwxyz", "🦀🦀", "é"]:
        for prefix in (None, "p·"):
            vs = [Variant(ident="U", to_string=nm), Variant(ident="T", kind="tuple", fields=[Field("u8"), Field("String")], to_string=nm + "1"),
                  Variant(ident="N", kind="named", fields=[Field("bool", name="f"), Field("i32", name="s")], serialize=[nm + "22", "x"]),
                  Variant(ident="CasedIdent", kind="tuple", fields=[Field("i64")]), Variant(ident="Named_ident", kind="named", fields=[Field("u8", name="field0")])]
            specs.append(EnumSpec(name="S%d" % k, variants=vs, derives=["Display"], prefix=prefix, serialize_all=[None, "kebab-case", "UPPERCASE"][k % 3], std_derives=["Debug", "Clone"]))
            k += 1
    units = [shards.Unit("u_" + s.name.lower(), glue(s), meta={"enum_src": s.render(), "bare_src": s.render_bare()}, sig=s.signature()) for s in specs]
    run.rule = RULE
    samples = standard_flow(run, units, deps["std"], vmon, profiles=("fast",), tag="c17")
    pick_samples(run, samples, {u.name: u for u in units})
    run.extra["programs"] = len(units)
    run.assumptions = ["std's <str as Display>::fmt and format! are the reference by definition of the property", "derive(Debug) of std is correct"]
