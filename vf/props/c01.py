"""C01 — EnumString returns variant V iff the input is one of V's declared spellings."""
from .common import *
from .. import strgen

RULE = ("programs: seeded random enums over the whole attribute space (0..9 variants of unit/tuple/named kind, generics and "
        "lifetimes, serialize*/to_string/disabled/default/default_with/ascii_case_insensitive[=bool], serialize_all in "
        "none+16 styles, enum-level ascii_case_insensitive) with non-overlapping spellings, plus a systematic part; inputs "
        "per enum: classes I1..I11 (declared spellings, all/sampled case flips, one-edit neighbours, padded, disabled/default "
        "variants' spellings and identifiers, re-cased identifiers, empty, Unicode look-alikes, random, 4 KiB). Every "
        "from_str and try_from result is compared with the reference parser (variant AND payload, error value). "
        "non-trivial: the input is not a verbatim spelling of the accepted variant; distinct = (enum, input).")


def systematic(k0):
    """Attribute-combination grid on a fixed small shape (identical for every seed)."""
    specs = []
    r = gen.rng_for(0, "c01-sys")
    k = k0
    for style in [None] + model.STYLE_STRINGS:
        for enum_aci in (False, True):
            for shape in range(3):
                vs = []
                ids = ["DarkBlack", "HTTPServer", "Utf8", "lower", "Snake_Case", "X1"]
                r.shuffle(ids)
                # 0: plain unit ; 1: serialize x2 tuple ; 2: to_string named ; 3: disabled with serialize ; 4: aci override ; 5: default
                vs.append(Variant(ident=ids[0]))
                vs.append(Variant(ident=ids[1], kind="tuple", fields=[Field("u8"), Field("String")], serialize=["srv", "Server-%d" % shape]))
                vs.append(Variant(ident=ids[2], kind="named", fields=[Field("bool", name="f"), Field("i32", name="s")], to_string="u t f"))
                vs.append(Variant(ident=ids[3], disabled=True, serialize=["gone"] if shape else []))
                vs.append(Variant(ident=ids[4], aci=(not enum_aci) if shape != 2 else None, aci_bare=(shape == 0),
                                  serialize=["MiXed"] if shape == 1 else []))
                if shape == 0:
                    vs.append(Variant(ident=ids[5], kind="tuple", fields=[Field("String")], default=True))
                elif shape == 1:
                    vs.append(Variant(ident=ids[5], kind="named", fields=[Field("String", name="f")], default=True, serialize=["dflt"]))
                else:
                    vs.append(Variant(ident=ids[5], kind="tuple", fields=[Field("u16")], default_with="dw_sys_%d" % k, dw_expr="300u16"))
                r.shuffle(vs)
                s = EnumSpec(name="S%d" % k, variants=vs, derives=["EnumString"], serialize_all=style, aci=enum_aci)
                if not model.overlaps(s) and len({x for v in vs for x in model.spellings(v, style)}) == sum(len(model.spellings(v, style)) for v in vs):
                    specs.append(s)
                    k += 1
    return specs


def glue(spec):
    body = strgen.default_with_fns(spec) + "\n" + spec.render() + "\n"
    body += "pub fn drive(m: &mut vmon::Mon) {\n"
    body += strgen.parse_glue(spec, extra=strgen.recased_extras(spec)) + "\n"
    body += "}\n"
    return body


def offline_recheck(run, samples, spec_by_unit):
    """Second, independent implementation of the oracle: re-evaluate sampled events with the python model."""
    n = bad = 0
    for unit, ss in samples.items():
        spec = spec_by_unit.get(unit)
        if spec is None:
            continue
        for s in ss:
            if "input" not in s:
                continue
            kind, idx = model.parse(spec, s["input"])
            want = {"variant": "variant %s", "default": "default %s", "err": "Err"}[kind]
            if kind != "err":
                want = want % spec.variants[idx].ident
            n += 1
            if s.get("model") != want:
                bad += 1
                run.violation("oracle-disagreement", "python and Rust reference parsers disagree on %r for %s: %s vs %s"
                              % (s["input"], unit, want, s.get("model")), detail={"sample": s})
            obs = s.get("observed", "")
            if kind == "err" and not obs.startswith("Err("):
                bad += 1
            if kind != "err" and not obs.startswith("Ok(" + spec.variants[idx].ident.replace("r#", "")):
                bad += 1
                run.violation("offline:wrong-variant", "offline re-check: input %r on %s observed %s, python model says %s"
                              % (s["input"], unit, obs, want), detail={"sample": s})
    run.count("offline/rechecked_samples", n)
    run.extra["offline_recheck"] = {"samples": n, "disagreements": bad}


def phf_units(r, n, spec_by_unit, prefix="P"):
    """Field-less use_phf enums of the same domain (compiled against strum built with the phf feature)."""
    units = []
    for i in range(n):
        s = strgen.build(r, "%s%d" % (prefix, i), ["EnumString"], fieldless=True, naming_bias=0.75, max_n=8, capture_types=["String", "BoxStr"])
        s.use_phf = True
        u = shards.Unit("u_" + s.name.lower(), glue(s), meta={"enum_src": s.render(), "bare_src": s.render_bare()}, sig="phf," + s.signature(), head=strgen.CAPTURE_HEAD)
        units.append(u)
        spec_by_unit[u.name] = s
    return units


def check(run):
    deps, vmon = setup(run, cfgs=("std", "phf"))
    thorough = run.tier == "thorough"
    specs = systematic(0)
    r = gen.rng_for(run.seed, "c01")
    nrand = 4000 if thorough else 700
    for i in range(nrand):
        specs.append(strgen.build(r, "R%d" % i, ["EnumString"], allow_braces=True, n=(45 if i in (3, 4) else None)))
    units = []
    spec_by_unit = {}
    from . import c18
    for s in specs:
        if any(v.default and not v.disabled for v in s.variants) and r.random() < 0.15:
            # custom error attributes next to a catch-all variant: no error can occur, both impls keep strum::ParseError
            s.parse_err = ("MyErr", "my_err")
        u = shards.Unit("u_" + s.name.lower(), glue(s), meta={"enum_src": s.render(), "bare_src": s.render_bare()}, sig=s.signature(), head=(strgen.CAPTURE_HEAD, c18.ERR_HEAD))
        units.append(u)
        spec_by_unit[u.name] = s
    run.rule = RULE
    samples = standard_flow(run, units, deps["std"], vmon, profiles=("fast",), tag="c01")
    punits = phf_units(r, 800 if thorough else 150, spec_by_unit)
    samples.update(standard_flow(run, punits, deps["phf"], vmon, profiles=("fast",), tag="c01p"))
    units = units + punits
    offline_recheck(run, samples, spec_by_unit)
    pick_samples(run, samples, {u.name: u for u in units})
    run.extra["programs"] = len(units)
    run.assumptions = ["derive(Debug)/derive(PartialEq) of std are correct", "the generator renders the EnumSpec faithfully",
                       "corpus spellings do not overlap between variants (checked by the generator)"]
