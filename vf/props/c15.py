"""C15 — EnumProperty returns the declared value for (variant, key, type), else None."""
from .common import *

RULE = ("programs: variant kinds x generics x 0..6 properties per variant split over 1..3 props(..) groups (also across several "
        "#[strum] attributes), keys shared across variants and across value types on the same variant, keyword-like keys, "
        "disabled variants carrying props, ints incl. negative and i64::MIN/MAX. inputs: EVERY key declared anywhere in the enum, "
        "case / prefix / suffix variations of them, the empty string and random strings, through get_str, get_int and get_bool on "
        "every sample value of every variant. oracle: model maps (Some(x) iff declared with that type on that enabled variant). "
        "non-trivial: all; distinct = (enum, variant, key, getter).")

KEYS = ["color", "Color", "COLOR", "level", "size", "type", "fn", "match", "loop", "self", "Self", "mod", "x", "X", "a1", "_u", "long_key_name", "k", "id", "Id", "ref", "dyn", "async", "é", "naïve"]
STRS = ["red", "", "with \"q\"", "back\\slash", "{braces}", "日本", "a b", "1", "true"]
INTLITS = [("1_250_000", 1250000), ("0xFF", 255), ("0b1010", 10), ("0o755", 493), ("42i64", 42), ("-1_000", -1000), ("0x7FFF_FFFF_FFFF_FFFF", 2**63 - 1),
           ("-0", 0), ("00012", 12)]
INTS = [0, 1, -1, 42, -42, 255, 256, -129, 65536, 2**31, -2**31, 2**63 - 1, -2**63, 1234567890123]


def build(r, name, generics=None):
    n = r.choice([1, 2, 3, 4, 5, 7]) if r.random() > 0.01 else 40
    idents = gen.pick_idents(r, n)
    pool = r.sample(KEYS, r.randint(2, 8))
    vs = []
    for i in range(n):
        kind = r.choice(["unit", "tuple", "named"])
        v = Variant(ident=idents[i], kind=kind, fields=gen.rand_fields(r, kind, nmax=2, generics=generics), disabled=r.random() < 0.2)
        nprops = r.choice([0, 1, 2, 3, 4, 6])
        used = set()
        props = []
        for _ in range(nprops):
            key = r.choice(pool)
            ty = r.choice(["str", "int", "bool"])
            if (key, ty) in used:
                continue
            used.add((key, ty))
            val = {"str": r.choice(STRS), "int": r.choice(INTS), "bool": r.random() < 0.5}[ty]
            if ty == "int" and r.random() < 0.3:
                props.append((key, "intlit", r.choice(INTLITS)))
            else:
                props.append((key, ty, val))
        ngroups = r.choice([1, 1, 2, 3])
        groups = [[] for _ in range(ngroups)]
        for p in props:
            groups[r.randrange(ngroups)].append(p)
        v.props = [g for g in groups if g] + ([[]] if r.random() < 0.15 else [])
        v.split_attrs = r.choice([0, 1, 2])
        v.attr_order_seed = r.randint(0, 5)
        if r.random() < 0.2:
            v.serialize = ["s%d" % i]
        vs.append(v)
    spec = EnumSpec(name=name, variants=vs, derives=["EnumProperty"], generics=generics, std_derives=["Debug", "Clone"])
    # unrelated enum-level attributes must not influence the keys
    if r.random() < 0.5:
        spec.serialize_all = r.choice(model.STYLE_STRINGS)
    if r.random() < 0.3:
        spec.prefix = "pfx_"
    spec.attr_order_seed = r.randint(0, 6)
    gen.add_noise(r, spec, skip=("props",))
    gen.maybe_macro_wrap(r, spec)
    gen.ensure_generics_used(r, spec)
    return spec


def glue(spec, r):
    ty = spec.ty()
    n = len(spec.variants)
    declared = []
    for v in spec.variants:
        for g in v.props:
            for k, t, val in g:
                if k not in declared:
                    declared.append(k)
    keys = list(declared)
    for k in declared:
        for var in (k.upper(), k.lower(), k.capitalize(), k + "_", "_" + k, k[:-1], k + k, " " + k, k + " "):
            if var not in keys:
                keys.append(var)
    for extra in ["", "unknown", "prop", "r#type", "\0"]:
        if extra not in keys:
            keys.append(extra)
    for _ in range(8):
        s = "".join(r.choice("abcxyzCOLR_19é") for _ in range(r.randint(1, 7)))
        if s not in keys:
            keys.append(s)
    def table(tyname, render):
        rows = []
        for v in spec.variants:
            m_ = {}
            if not v.disabled:
                for g in v.props:
                    for k, t, val in g:
                        tt, vv = ("int", val[1]) if t == "intlit" else (t, val)
                        if tt == tyname and k not in m_:
                            m_[k] = vv
            rows.append("&[%s]" % ", ".join("Some(%s)" % render(m_[k]) if k in m_ else "None" for k in keys))
        return "&[%s]" % ", ".join(rows)
    body = spec.render() + "\n"
    body += "pub fn drive(m: &mut vmon::Mon) {\n"
    body += "    " + samples_vec(spec, list(range(n)), nsamples=1) + "\n"
    body += "    let keys: &[&str] = %s;\n" % str_slice(keys)
    body += "    let es: &[&[Option<&str>]] = %s;\n" % table("str", rs_str)
    body += "    let ei: &[&[Option<i64>]] = %s;\n" % table("int", lambda x: "i64::MIN" if x == -2**63 else "%di64" % x)
    body += "    let eb: &[&[Option<bool>]] = %s;\n" % table("bool", lambda x: "true" if x else "false")
    body += "    for (idx, e) in samples.iter() {\n"
    body += "        let subj0 = format!(\"{:?}\", e);\n"
    body += "        for (ki, k) in keys.iter().enumerate() {\n"
    body += "            let subj = format!(\"{} key={:?}\", subj0, k);\n"
    body += "            m.expect_eq(\"prop\", \"get_str\", &subj, &strum::EnumProperty::get_str(e, k), &es[*idx][ki], true);\n"
    body += "            m.expect_eq(\"prop\", \"get_int\", &subj, &strum::EnumProperty::get_int(e, k), &ei[*idx][ki], true);\n"
    body += "            m.expect_eq(\"prop\", \"get_bool\", &subj, &strum::EnumProperty::get_bool(e, k), &eb[*idx][ki], true);\n"
    body += "            { let dyn__ref: &dyn strum::EnumProperty = e;\n"
    body += "              m.expect_eq(\"prop\", \"get_str via &dyn\", &subj, &dyn__ref.get_str(k), &es[*idx][ki], true);\n"
    body += "              m.expect_eq(\"prop\", \"get_int via &dyn\", &subj, &dyn__ref.get_int(k), &ei[*idx][ki], true);\n"
    body += "              m.expect_eq(\"prop\", \"get_bool via &dyn\", &subj, &dyn__ref.get_bool(k), &eb[*idx][ki], true); }\n"
    body += "            { use strum::EnumProperty as _; let dbl__ref = &e;\n"
    body += "              m.expect_eq(\"prop\", \"get_str via &&E\", &subj, &dbl__ref.get_str(k), &es[*idx][ki], true);\n"
    body += "              m.expect_eq(\"prop\", \"get_int via &&E\", &subj, &dbl__ref.get_int(k), &ei[*idx][ki], true); }\n"
    body += "        }\n    }\n}\n"
    return body


def check(run):
    deps, vmon = setup(run)
    thorough = run.tier == "thorough"
    r = gen.rng_for(run.seed, "c15")
    specs = []
    for i in range(8000 if thorough else 2500):
        specs.append(build(r, "E%d" % i, generics=r.choice([None, None, None, "T", "a", "N", "TU", "Tw", "aTw", "I", "aI", "Tdef", "TwU", "Tnd", "NT"])))
    units = [shards.Unit("u_" + s.name.lower(), glue(s, r), meta={"enum_src": s.render(), "bare_src": s.render_bare()}, sig=s.signature()) for s in specs]
    run.rule = RULE
    samples = standard_flow(run, units, deps["std"], vmon, profiles=("debug",), tag="c15")
    pick_samples(run, samples, {u.name: u for u in units})
    run.extra["programs"] = len(units)
    run.assumptions = ["derive(Debug) of std is correct", "generator renders the EnumSpec faithfully"]
