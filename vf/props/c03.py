"""C03 — all string-producing derives agree on one canonical name per variant."""
import copy
from .common import *
from .. import strgen

RULE = ("programs: variant kinds x {no attr, to_string, 1..3 serialize literals of distinct lengths with the longest in every "
        "position, both} x prefix {none, empty, ASCII, non-ASCII} x serialize_all {none + 16} x const_into_str on/off x generics, "
        "systematic grid plus seeded random enums; each spec rendered twice (A: Display+AsRefStr+IntoStaticStr+VariantNames, "
        "B: deprecated ToString+AsStaticStr+EnumVariantNames+IntoStaticStr). events: every printer on every sample value of every "
        "enabled variant, VARIANTS[i] for every declared i, const into_str() in a const item; oracle: canonical name from the "
        "model. non-trivial: variant has a naming attribute, or the enum a prefix or style; distinct = (enum, api, variant, payload).")


def canon_list(spec):
    return [model.canonical(v, spec.serialize_all, spec.prefix) for v in spec.variants]


def glue(spec):
    idx = spec.enabled()
    names = canon_list(spec)
    nontrivial = [bool(v.serialize or v.to_string is not None or spec.serialize_all or spec.prefix is not None) for v in spec.variants]
    body = spec.render() + "\n"
    if spec.const_into_str and "IntoStaticStr" in spec.derives:
        for i in idx:
            v = spec.variants[i]
            if v.kind == "unit":
                body += "pub const CONST_NAME_%d: &'static str = %s.into_str();\n" % (i, v.ctor(spec.path(), []))
    body += "pub fn drive(m: &mut vmon::Mon) {\n"
    body += "    " + samples_vec(spec, idx, index_of=lambda i: i) + "\n"
    body += printers_code(spec) + "\n"
    body += "    vmon::names::check_names(m, \"canonical\", &samples, &printers, %s, %s);\n" % (str_slice(names), bool_slice(nontrivial))
    if "VariantNames" in spec.derives or "EnumVariantNames" in spec.derives:
        body += "    vmon::names::check_table(m, \"canonical\", \"VariantNames::VARIANTS\", <%s as strum::VariantNames>::VARIANTS, %s, %s);\n" % (
            spec.ty(), str_slice(names), "true" if any(nontrivial) else "false")
    if spec.const_into_str and "IntoStaticStr" in spec.derives:
        for i in idx:
            v = spec.variants[i]
            if v.kind == "unit":
                body += "    m.expect_str(\"canonical\", \"const into_str()\", %s, CONST_NAME_%d, %s, %s);\n" % (
                    rs_str(v.ident), i, rs_str(names[i]), "true" if nontrivial[i] else "false")
    body += "}\n"
    return body


A_DERIVES = ["Display", "AsRefStr", "IntoStaticStr", "VariantNames"]
B_DERIVES = ["ToString", "AsStaticStr", "EnumVariantNames", "IntoStaticStr"]


def naming_shapes(k):
    """All naming-attribute shapes, with the longest serialize literal in every position."""
    L, M, S = "longest-lit-%d" % k, "mid%d" % (k % 7), "s"
    return [
        dict(),
        dict(to_string="ToStr %d" % k),
        dict(serialize=[M]),
        dict(serialize=[L, S]), dict(serialize=[S, L]),
        dict(serialize=[L, M, S]), dict(serialize=[M, L, S]), dict(serialize=[S, M, L]),
        dict(serialize=[L, S], to_string="t"), dict(serialize=[S, L], to_string="a much longer to_string than any serialize"),
        dict(serialize=["é", "ab"]),     # tie in bytes: filtered out below (ties are not pinned)
        dict(serialize=["日本語テキスト", "abcde"]),  # longest both in bytes and in chars
    ]


def systematic():
    specs = []
    k = 0
    r = gen.rng_for(0, "c03-sys")
    prefixes = [None, "", "pre_", "é界/"]
    shapes_n = len(naming_shapes(0))
    for style in [None] + model.STYLE_STRINGS:
        for pi, prefix in enumerate(prefixes):
            for cis in (False, True):
                ids = gen.pick_idents(r, shapes_n + 1)
                vs = []
                for j, sh in enumerate(naming_shapes(k)):
                    kind = ["unit", "tuple", "named"][(j + k) % 3]
                    v = Variant(ident=ids[j], kind=kind, fields=gen.rand_fields(r, kind, nmax=2, types=["u8", "String", "bool", "i32"]))
                    v.serialize = list(sh.get("serialize", []))
                    v.to_string = sh.get("to_string")
                    if v.to_string is None and len(v.serialize) >= 2:
                        lens = [len(s.encode()) for s in v.serialize]
                        if lens.count(max(lens)) != 1 or not model.unambiguous_longest(v.serialize):
                            continue
                    v.split_attrs = (j + k) % 3
                    v.attr_order_seed = 0
                    vs.append(v)
                vs.append(Variant(ident=ids[-1], disabled=True, serialize=["off"]))
                r.shuffle(vs)
                s = EnumSpec(name="S%d" % k, variants=vs, derives=list(A_DERIVES), serialize_all=style, prefix=prefix, const_into_str=cis)
                specs.append(s)
                k += 1
    return specs


def check(run):
    deps, vmon = setup(run)
    thorough = run.tier == "thorough"
    specs = systematic()
    if not thorough:
        specs = [s for i, s in enumerate(specs) if i % 2 == run.seed % 2 or s.prefix == "é界/"]
    r = gen.rng_for(run.seed, "c03")
    for i in range(6000 if thorough else 1500):
        s = strgen.build(r, "R%d" % i, list(A_DERIVES), allow_default=False, allow_aci=True, allow_prefix=True, distinct_lengths=True,
                         generics_pool=(None, None, "T", "N", "Tw", "Tdef", "Tnd", "NT"), n=(40 if i in (5, 6) else r.choice([1, 2, 3, 5, 7])), dup_within_variant=False, allow_braces=True)
        s.const_into_str = r.random() < 0.4
        specs.append(s)
    # canonical names shared by several variants (legal without EnumString): VARIANTS keeps one entry per variant
    from . import c08
    for di, (vs, style) in enumerate(c08.DUP_SHAPES):
        for pref in (None, "p:"):
            variants = [Variant(ident=i, kind=["unit", "tuple", "named"][(j + di) % 3], serialize=list(a.get("serialize", [])), to_string=a.get("to_string")) for j, (i, a) in enumerate(vs)]
            for v in variants:
                v.fields = [] if v.kind == "unit" else ([Field("u8")] if v.kind == "tuple" else [Field("bool", name="f")])
            specs.append(EnumSpec(name="D%d" % len(specs), variants=variants, serialize_all=style, prefix=pref, derives=list(A_DERIVES)))
    units = []
    for s in specs:
        units.append(shards.Unit("u_" + s.name.lower() + "_a", glue(s), meta={"enum_src": s.render(), "bare_src": s.render_bare()}, sig="A," + s.signature()))
        b = copy.deepcopy(s)
        b.derives = list(B_DERIVES)
        units.append(shards.Unit("u_" + s.name.lower() + "_b", glue(b), meta={"enum_src": b.render(), "bare_src": b.render_bare()}, sig="B," + s.signature()))
    run.rule = RULE
    samples = standard_flow(run, units, deps["std"], vmon, profiles=("debug",), tag="c03")
    pick_samples(run, samples, {u.name: u for u in units})
    run.extra["programs"] = len(units)
    run.assumptions = ["derive(Debug)/derive(Clone) of std are correct", "generator renders the EnumSpec faithfully",
                       "serialize literals of one variant have a unique longest element (ties are not pinned by the property)"]
