"""C06 — from_repr(d) is Some(V) iff d is the discriminant rustc gives enabled variant V."""
from .common import *

RULE = ("programs: repr in {none,u8,i8,u16,i16,u32,i32,u64,i64,usize,isize} x explicit discriminants (negative, hex, arithmetic/"
        "shift/bit-op expressions, named constants, gapped, descending, type MIN/MAX) mixed with implicit ones x every placement "
        "of disabled variants (systematic masks) x variant kinds x type/const generics. inputs: EVERY value of the repr type for "
        "8/16-bit reprs; for wider types each discriminant +-2, 0, +-1, MIN, MAX, powers-of-two boundaries and seeded random values. "
        "oracle: model of rustc's numbering over ALL declared variants, cross-checked on every run against `v as R` (field-less) or "
        "a tag read (#[repr(int)] data enums); from_repr(v as R)==Some(v); parameter type checked by coercion to fn(R); const "
        "evaluation observed by compiling `const X: Option<E> = E::from_repr(k)`. non-trivial: enum has an explicit discriminant "
        "or a disabled variant; distinct = (enum, d).")

REPRS = {
    None: ("usize", 0, 2**63 - 1), "u8": ("u8", 0, 255), "i8": ("i8", -128, 127), "u16": ("u16", 0, 65535), "i16": ("i16", -32768, 32767),
    "u32": ("u32", 0, 2**32 - 1), "i32": ("i32", -2**31, 2**31 - 1), "u64": ("u64", 0, 2**64 - 1), "i64": ("i64", -2**63, 2**63 - 1),
    "usize": ("usize", 0, 2**64 - 1), "isize": ("isize", -2**63, 2**63 - 1),
}


def render_value(r, val, rty, lo, hi, consts):
    """Return an expression text evaluating to val in type rty."""
    forms = ["dec"]
    if val >= 0:
        forms += ["hex", "add", "or"]
        if val > 0 and val % 4 == 0:
            forms.append("shl")
        if val > 1 and val % 3 == 0:
            forms.append("mul")
        if val <= hi - 7:
            forms.append("sub")
            forms.append("shr")
    else:
        forms += ["neg-add", "paren-neg"]
    if val == hi and consts is not None:
        forms.append("max")
    if lo == 0 and val > 0 and consts is not None and any(val == hi >> k for k in (1, 2, 4)):
        forms = ["notshr", "notshr", "dec"]     # `!0 >> k`: the value depends on the type the expression is evaluated in
    if val == lo and lo < 0:
        forms = ["min"]
    if lo <= val <= hi and abs(val) < 2**31 and consts is not None:
        forms.append("const")
    f = r.choice(forms)
    if f == "notshr":
        k = [k for k in (1, 2, 4) if val == hi >> k][0]
        return "!0 >> %d" % k
    if f == "dec":
        return str(val) if val >= 0 else "-%d" % -val
    if f == "hex":
        return "0x%X" % val
    if f == "add":
        a = r.randint(0, val)
        return "%d + %d" % (a, val - a)
    if f == "or":
        a = val & 0x55555555_55555555
        return "%d | %d" % (a, val - a) if a and val - a else "%d | 0" % val
    if f == "shl":
        k = 2 if val % 4 == 0 else 1
        return "%d << %d" % (val >> k, k)
    if f == "shr":
        return "%d >> 1" % (val * 2) if val * 2 <= hi else str(val)
    if f == "mul":
        return "%d * 3" % (val // 3)
    if f == "sub":
        return "%d - 7" % (val + 7)
    if f == "neg-add":
        return "-%d + 3" % (-val + 3) if -(-val + 3) >= lo else "-%d" % -val
    if f == "paren-neg":
        return "-(%d)" % -val
    if f == "max":
        return "%s::MAX" % rty
    if f == "min":
        return "%s::MIN" % rty
    if f == "const":
        pool = ["START", "STEP", "BASE", "OFFSET", "COUNT", "FIRST", "ZERO", "ONE", "PREV", "NEXT", "DISCRIMINANT", "MAX_VAL", "N0", "V", "LEN"]
        name = pool[len(consts)] if len(consts) < len(pool) and r.random() < 0.7 else "K%d" % len(consts)
        if any(nm == name for nm, _ in consts):
            name = "K%d" % len(consts)
        consts.append((name, val))
        return name if r.random() < 0.5 else "%s + 0" % name
    return str(val)


def build(r, name, repr_key, n, mask, fieldless, generics=None, style=None):
    rty, lo, hi = REPRS[repr_key]
    # without #[repr] rustc types discriminant expressions as isize while from_repr takes usize: only
    # untyped literal expressions are inside the documented domain there
    consts = [] if repr_key is not None else None
    vs = []
    idents = gen.pick_idents(r, n)
    prev = None
    used = set()
    mode = style or r.choice(["implicit", "mixed", "mixed", "gapped", "descending", "extreme", "negative"])
    allow_explicit = fieldless or repr_key is not None
    for i in range(n):
        kind = "unit" if fieldless else r.choice(["unit", "tuple", "named"])
        v = Variant(ident=idents[i], kind=kind, fields=gen.rand_fields(r, kind, nmax=2, generics=generics), disabled=bool(mask[i]))
        explicit = allow_explicit and mode != "implicit" and (r.random() < 0.5 or (mode in ("descending", "negative", "extreme") and i == 0))
        nxt = 0 if prev is None else prev + 1
        val = nxt
        if explicit or nxt in used or nxt > hi:
            for _ in range(200):
                if mode == "descending" and prev is not None:
                    cand = prev - r.randint(1, 9)
                elif mode == "negative" and lo < 0:
                    cand = r.randint(max(lo, -300), 50)
                elif mode == "extreme":
                    cand = r.choice([hi, hi - 1, hi - r.randint(2, 40), lo, lo + 1, lo + r.randint(2, 40), hi >> 1, hi >> 2, hi >> 4])
                elif mode == "gapped":
                    cand = (prev if prev is not None else r.randint(0, 5)) + r.randint(2, 60)
                else:
                    cand = r.randint(max(lo, -60), min(hi, 200))
                if lo <= cand <= hi and cand not in used and (cand + (n - i)) <= hi + 1:
                    val = cand
                    break
            else:
                return None
            explicit = True
        if val in used or val < lo or val > hi:
            return None
        if explicit:
            if not allow_explicit:
                return None
            v.disc = (render_value(r, val, rty, lo, hi, consts), val)
        used.add(val)
        prev = val
        vs.append(v)
    spec = EnumSpec(name=name, variants=vs, derives=["FromRepr"], repr=repr_key, generics=generics)
    spec.attr_order_seed = r.choice([0, 1, 2, 3, 4, 5, 6])
    gen.add_noise(r, spec, enum_level=False, skip=("std_default",))
    if r.random() < 0.25:
        spec.nest = True          # from_repr is called from outside the enum's own module
        if r.random() < 0.5:
            spec.vis = r.choice(["pub(crate)", "pub(super)", "pub(in super::super)"])
    gen.rawify(r, spec, explicit_names=False)
    gen.maybe_macro_wrap(r, spec)
    for v in spec.variants:
        if v.kind == "tuple" and len(v.fields) == 1 and v.fields[0].ty in ("u8", "i32", "bool", "String") and r.random() < 0.3:
            v.default_with = "noise_default_with"     # EnumString's attribute: from_repr must still build Default::default()
    if r.random() < 0.3:
        spec.serialize_all = r.choice(["snake_case", "UPPERCASE"])   # an unrelated #[strum(..)] attribute next to #[repr]
    if fieldless and generics is None and r.random() < 0.25:
        spec.generics = "Nfree"     # field-less const-generic enum: from_repr must stay const
    if fieldless:
        spec.std_derives = ["Debug", "PartialEq", "Clone", "Copy"]
    if generics:
        # carrier variant must not disturb numbering assumptions: append at the end
        used_t = {f.ty for v in spec.variants for f in v.fields}
        need = {"T": ["T"], "N": ["CG"], "TN": ["T", "CG"], "TU": ["T", "U"], "Tw": ["T"], "TwU": ["T", "U"], "Tdef": ["T"], "NT": ["T", "CG"], "Tnd": ["OptT"]}[generics]
        missing = [t for t in need if t not in used_t]
        if missing:
            if prev is not None and (prev + 1 > hi or prev + 1 in used):
                return None
            spec.variants.append(Variant(ident="Carrier", kind="tuple", fields=[Field(ty=t) for t in missing]))
    spec.consts = [(nm, val) for nm, val in (consts or [])]
    return spec


def glue(spec, thorough):
    rty, lo, hi = REPRS[spec.repr]
    discs = model.discriminants(spec)
    ty = spec.ty()
    fieldless = all(v.kind == "unit" for v in spec.variants)
    nontrivial = any(v.disc or v.disabled for v in spec.variants)
    body = "".join("pub const %s: %s = %d;\n" % (nm, rty, val) for nm, val in getattr(spec, "consts", []))
    body += spec.render() + "\n"
    if fieldless and spec.variants and spec.generics in (None, "Nfree"):
        # const-context observation
        ks = sorted({discs[0], discs[-1], min(hi, discs[-1] + 1)})
        for j, k in enumerate(ks):
            body += "pub const CONST_FR_%d: Option<%s> = %s::from_repr(%s as %s);\n" % (j, ty, ty, ("(%d)" % k), rty)
    body += "pub fn drive(m: &mut vmon::Mon) {\n"
    body += "    type R = %s;\n" % rty
    body += "    let _sig: fn(R) -> Option<%s> = <%s>::from_repr;\n" % (ty, ty)
    body += "    " + make_fn(spec, list(range(len(spec.variants)))) + "\n"
    body += "    let table: &[(i128, usize, bool)] = &[%s];\n" % ", ".join("(%d, %d, %s)" % (d, i, "false" if v.disabled else "true") for i, (v, d) in enumerate(zip(spec.variants, discs)))
    body += "    let fr = |d: i128| -> Option<Option<%s>> { match R::try_from(d) { Ok(r) => Some(<%s>::from_repr(r)), Err(_) => None } };\n" % (ty, ty)
    truth = []
    if fieldless and spec.generics in (None, "Nfree"):
        for i, v in enumerate(spec.variants):
            truth.append("(%d, (%s as R) as i128)" % (i, v.ctor(spec.path(), [])))
    elif spec.repr is not None:
        for i, v in enumerate(spec.variants):
            truth.append("(%d, { let val = %s; (unsafe { *(&val as *const %s as *const R) }) as i128 })" % (i, v.ctor(spec.path(), v.default_exprs()), ty))
    body += "    let truth: Vec<(usize, i128)> = vec![%s];\n" % ", ".join(truth)
    body += "    vmon::repr::check(m, &fr, &make, table, %d, %d, &truth, %s, %d);\n" % (lo, hi, "true" if nontrivial else "false", 6000 if thorough else 1500)
    if fieldless and spec.generics in (None, "Nfree"):
        for i, v in enumerate(spec.variants):
            if not v.disabled:
                body += "    m.expect_eq(\"repr/roundtrip\", \"from_repr(v as R)\", %s, &<%s>::from_repr(%s as R), &Some(%s), %s);\n" % (
                    rs_str(v.ident), ty, v.ctor(spec.path(), []), v.ctor(spec.path(), []), "true" if nontrivial else "false")
        if spec.variants:
            ks = sorted({discs[0], discs[-1], min(hi, discs[-1] + 1)})
            for j, k in enumerate(ks):
                body += "    m.expect_eq(\"repr/const\", \"const X: Option<E> = E::from_repr(k)\", %s, &CONST_FR_%d, &<%s>::from_repr((%d) as R), true);\n" % (rs_str(str(k)), j, ty, k)
    body += "}\n"
    return body


def check(run):
    deps, vmon = setup(run)
    thorough = run.tier == "thorough"
    specs = []
    k = 0
    r0 = gen.rng_for(0, "c06-sys")
    # systematic: every disabled mask on small enums for 8-bit reprs and no repr, explicit/implicit mixes
    for rk in (None, "u8", "i8"):
        for n in range(1, 6 if thorough else 5):
            for mask in gen.all_masks(n):
                for style in ("implicit", "mixed"):
                    s = build(r0, "S%d" % k, rk, n, mask, fieldless=(k % 2 == 0 or rk is None), style=style)
                    if s is not None:
                        specs.append(s)
                        k += 1
    r = gen.rng_for(run.seed, "c06")
    reprs = list(REPRS.keys())
    tries = 0
    want = 5000 if thorough else 800
    cnt16 = 0
    while len([s for s in specs if s.name.startswith("R")]) < want and tries < want * 20:
        tries += 1
        rk = r.choice(reprs)
        if rk in ("u16", "i16"):
            cnt16 += 1
            if cnt16 > (800 if thorough else 120):
                continue
        n = r.choice([1, 2, 3, 4, 5, 6, 8, 12])
        mask = [r.random() < 0.25 for _ in range(n)]
        fieldless = r.random() < 0.55
        g = None if fieldless else r.choice([None, None, "T", "N", "TN", "TU", "Tw", "TwU", "Tdef", "NT", "Tnd"])
        s = build(r, "R%d" % k, rk, n, mask, fieldless, generics=g)
        if s is not None:
            specs.append(s)
            k += 1
    units = [shards.Unit("u_" + s.name.lower(), glue(s, thorough), meta={"enum_src": s.render(), "bare_src": s.render_bare()}, sig=s.signature()) for s in specs]
    run.rule = RULE
    samples = standard_flow(run, units, deps["std"], vmon, profiles=("fast",), tag="c06")
    pick_samples(run, samples, {u.name: u for u in units})
    run.extra["programs"] = len(units)
    run.extra["exhaustive_scope"] = "every value of the repr type for all u8/i8/u16/i16 enums (see counters repr/exhaustive-enums)"
    run.assumptions = ["`v as R` and the tag of a #[repr(int)] enum are rustc's discriminants (language reference)",
                       "derive(Debug)/derive(PartialEq) of std are correct"]
