"""Helpers shared by the property modules."""
from .. import core, gen, model, shards
import os
from ..spec import EnumSpec, Field, Variant, GENERICS, TYPES, rs_str, pspec_rust


def make_fn(spec, indices, name="make", use_default_with=False):
    """Rust closure: position in `indices` -> expected value of that variant with default payload."""
    arms = []
    for pos, i in enumerate(indices):
        v = spec.variants[i]
        arms.append("%d => %s" % (pos, v.ctor(spec.path(), v.default_exprs(use_default_with))))
    arms.append("_ => unreachable!()")
    return "let %s = |i: usize| -> %s { match i { %s } };" % (name, spec.ty(), ", ".join(arms))


def setup(run, cfgs=("std",)):
    deps = {c: core.build_deps(c) for c in cfgs}
    vmon = core.build_vmon()
    return deps, vmon


RELEASE_SAMPLE = int(os.environ.get("VERIF_RELEASE_SAMPLE", "5"))


def standard_flow(run, units, deps, vmon, profiles=("debug",), tag="s", nshards=None, extra_head="", timeout=1500, extra_args=(), extern_name="strum"):
    """compile + run + merge; returns samples_by_unit."""
    index = {u.name: u for u in units}
    all_samples = {}
    run.cur_deps = deps.cfg
    for pn in profiles:
        prof = shards.PROFILES[pn]
        bins = shards.compile_units(run, units, deps, prof, vmon, tag, extra_head=extra_head, nshards=nshards, extern_name=extern_name)
        run.count("shards/%s" % pn, len(bins))
        args = [str(run.seed), run.tier, pn] + list(extra_args)
        ctr = [0]

        def rebuild(us, nsh, prof=prof, ctr=ctr):
            ctr[0] += 1
            return shards.compile_units(run, us, deps, prof, vmon, "%s_w%d" % (tag, ctr[0]), extra_head=extra_head, nshards=nsh, extern_name=extern_name)
        s = shards.run_shards(run, bins, index, args=args, rebuild=rebuild)
        for k, v in s.items():
            all_samples.setdefault(k, []).extend(v)
    # every check also re-runs a sample of its units (every RELEASE_SAMPLE-th) without debug assertions and overflow checks (profile `nodebug`):
    # behaviour that hides behind debug_assert!/overflow checks differs only there
    if "release" not in profiles and RELEASE_SAMPLE > 0 and len(units) >= 1:
        sub = units[::RELEASE_SAMPLE]
        prof = shards.PROFILES["nodebug"]
        bins = shards.compile_units(run, sub, deps, prof, vmon, tag + "rel", extra_head=extra_head, nshards=nshards, extern_name=extern_name)
        run.count("shards/release-sample", len(bins))
        run.count("units/release-sample", len(sub))
        args = [str(run.seed), run.tier, "nodebug"] + list(extra_args)
        ctr2 = [0]

        def rebuild2(us, nsh):
            ctr2[0] += 1
            return shards.compile_units(run, us, deps, prof, vmon, "%srel_w%d" % (tag, ctr2[0]), extra_head=extra_head, nshards=nsh, extern_name=extern_name)
        s = shards.run_shards(run, bins, index, args=args, rebuild=rebuild2)
        for k, v in s.items():
            all_samples.setdefault(k, []).extend(v)
    return all_samples


def pick_samples(run, samples_by_unit, index, limit=30):
    """Choose evidence samples spread over units; attach the enum source of the first few."""
    names = sorted(samples_by_unit)
    r = gen.rng_for(run.seed, "samples")
    r.shuffle(names)
    out = []
    for n in names:
        ss = samples_by_unit[n]
        if not ss:
            continue
        s = dict(r.choice(ss))
        u = index.get(n)
        if u is not None and len(out) < 4 and "enum_src" in u.meta:
            s["enum"] = u.meta["enum_src"]
        out.append(s)
        if len(out) >= limit:
            break
    run.samples.extend(out)


def samples_vec(spec, indices, nsamples=2, name="samples", index_of=None):
    """Rust: Vec<(usize, E)> with the default payload and nsamples non-default payloads per variant.
    The usize is the position in `indices` unless index_of maps it."""
    items = []
    for pos, i in enumerate(indices):
        v = spec.variants[i]
        key = pos if index_of is None else index_of(i)
        items.append("(%d, %s)" % (key, v.ctor(spec.path(), v.default_exprs())))
        if v.fields:
            for k in range(nsamples):
                items.append("(%d, %s)" % (key, v.ctor(spec.path(), v.sample_exprs(k))))
    return "let %s: Vec<(usize, %s)> = vec![%s];" % (name, spec.ty(), ", ".join(items))


def str_slice(strings):
    return "&[%s]" % ", ".join(rs_str(s) for s in strings)


def bool_slice(bs):
    return "&[%s]" % ", ".join("true" if b else "false" for b in bs)


PRINTERS = {
    "Display": [("to_string", "|v: &{T}| v.to_string()"), ("format", '|v: &{T}| format!("{}", v)')],
    "ToString": [("to_string(derive ToString)", "|v: &{T}| v.to_string()")],
    "AsRefStr": [("as_ref", "|v: &{T}| { let s: &str = v.as_ref(); s.to_string() }")],
    "AsStaticStr": [("as_static", "|v: &{T}| strum::AsStaticRef::<str>::as_static(v).to_string()")],
    "IntoStaticStr": [("into_static(&v)", "|v: &{T}| { let s: &'static str = v.into(); s.to_string() }"),
                      ("into_static(v)", "|v: &{T}| { let s: &'static str = v.clone().into(); s.to_string() }")],
    "const_into_str": [("into_str", "|v: &{T}| v.into_str().to_string()")],
}


def printers_code(spec, name="printers"):
    lines = []
    names = []
    k = 0
    ders = list(spec.derives)
    if spec.const_into_str and "IntoStaticStr" in ders:
        ders.append("const_into_str")
    for d in ders:
        for label, code in PRINTERS.get(d, []):
            lines.append("    let p%d = %s;" % (k, code.replace("{T}", spec.ty())))
            names.append('(%s, &p%d as &dyn Fn(&%s) -> String)' % (rs_str(label), k, spec.ty()))
            k += 1
    lines.append("    let %s: Vec<vmon::names::Printer<%s>> = vec![%s];" % (name, spec.ty(), ", ".join(names)))
    return "\n".join(lines)
