"""C12 — ascii_case_insensitive folds ASCII letters only, only for the variants it covers."""
from .common import *
from .. import strgen
from . import c01

RULE = ("programs: {enum flag on/off} x {variant flag absent / bare / = true / = false} x spelling class {mixed ASCII, lower, "
        "upper, caseless, ASCII+non-ASCII letters, Kelvin/long-s/dotless-i/sharp-s} systematic grid plus seeded random enums; "
        "inputs: ALL 2^k case flips of every spelling for k <= K (K=10 quick, 12 thorough; sampled beyond), Unicode look-alike "
        "substitutions of every letter, non-ASCII case pairs, Unicode upper/lower of the whole spelling, plus the C01 classes; "
        "oracle: hand-written ASCII-fold reference parser. non-trivial: input differs from the matched spelling; "
        "distinct = (enum, input).")

SPELL_CLASSES = {
    "mixed": ["MiXed", "HelloWorld", "aBcD"],
    "lower": ["lower", "abc", "kelvin"],
    "upper": ["UPPER", "ABC", "KIS"],
    "caseless": ["123", "-_-", "4 2"],
    "nonascii": ["café", "Éclair", "straße", "Ünïx", "σίγμα", "İi"],
    "special": ["K", "ſ", "ı", "ß", "Kelvin", "kiss"],
}


def systematic():
    specs = []
    k = 0
    r = gen.rng_for(0, "c12-sys")
    for enum_aci in (False, True):
        for cname, pool in SPELL_CLASSES.items():
            for rot in range(len(pool)):
                vs = []
                flags = [(None, True), (True, True), (True, False), (False, True)]
                for j, (aci, bare) in enumerate(flags):
                    base = pool[(rot + j) % len(pool)]
                    sp = base + ["", "-b", "_c", ".d"][j]
                    v = Variant(ident="V%d" % j, aci=aci, aci_bare=bare)
                    if j % 2 == 0:
                        v.serialize = [sp]
                    else:
                        v.to_string = sp
                    vs.append(v)
                # one variant named by its identifier only, one case-sensitive twin differing only in case
                vs.append(Variant(ident="PlainIdent"))
                vs.append(Variant(ident="Data", kind="tuple", fields=[Field("u8")], aci=True, serialize=["d" + pool[rot][:2] + "é"]))
                s = EnumSpec(name="S%d" % k, variants=vs, derives=["EnumString"], aci=enum_aci)
                if not model.overlaps(s):
                    specs.append(s)
                    k += 1
    return specs


def check(run):
    deps, vmon = setup(run, cfgs=("std", "phf"))
    thorough = run.tier == "thorough"
    specs = systematic()
    r = gen.rng_for(run.seed, "c12")
    for i in range(3000 if thorough else 450):
        sp = strgen.build(r, "R%d" % i, ["EnumString"], allow_default=(i % 3 == 0), naming_bias=0.8,
                          generics_pool=(None, None, "T", "Tnd"), max_n=6)
        if i % 6 == 5:
            # C12 does not require non-overlapping spellings: a case-sensitive and a case-insensitive variant may share letters;
            # inputs claimed by exactly one of them must still resolve to it
            strgen.add_overlap(r, sp)
        specs.append(sp)
    units = []
    spec_by_unit = {}
    for s in specs:
        u = shards.Unit("u_" + s.name.lower(), c01.glue(s), meta={"enum_src": s.render(), "bare_src": s.render_bare()}, sig=s.signature(), head=strgen.CAPTURE_HEAD)
        units.append(u)
        spec_by_unit[u.name] = s
    run.rule = RULE
    samples = standard_flow(run, units, deps["std"], vmon, profiles=("fast",), tag="c12",
                            extra_args=["flipk=%d" % (12 if thorough else 10)])
    punits = c01.phf_units(r, 1000 if thorough else 200, spec_by_unit)
    samples.update(standard_flow(run, punits, deps["phf"], vmon, profiles=("fast",), tag="c12p",
                                 extra_args=["flipk=%d" % (12 if thorough else 10)]))
    units = units + punits
    c01.offline_recheck(run, samples, spec_by_unit)
    pick_samples(run, samples, {u.name: u for u in units})
    run.extra["programs"] = len(units)
    run.extra["flip_exhaustive_up_to_k"] = 12 if thorough else 10
    run.assumptions = ["derive(Debug)/derive(PartialEq) of std are correct", "the generator renders the EnumSpec faithfully"]
