"""C14 — EnumMessage returns exactly the per-variant message, detail, docs and spellings."""
from .common import *
from .. import strgen

RULE = ("programs: >= 1 variant, all kinds and generics x message / detailed_message presence (all four combinations) x 0..4 doc "
        "attributes in the forms `///`, `#[doc = \"..\"]`, `/** */` with 0/1/2+ leading spaces, empty lines, quotes, backslashes, "
        "braces and non-ASCII text x naming attributes x serialize_all x prefix x disabled, systematic grid plus seeded random enums. "
        "events: get_message, get_detailed_message, get_documentation, get_serializations on every sample value (default and "
        "non-default payloads) of EVERY variant incl. disabled ones; oracle: model texts (doc: one leading space stripped per "
        "attribute, single attribute as is, several each + newline; detailed falls back to message; disabled -> three Nones; "
        "spellings as a set, never prefixed). non-trivial: all; distinct = (enum, variant, payload, getter).")

MSGS = ["plain message", "", "with \"quotes\"", "back\\slash", "braces {x} {{y}}", "naïve café 日本", "line\nbreak", " leading space", "tab\tsep", "%s %d {}"]
DOC_TEXTS = [" one leading", "  two leading", "no leading", "", " ", "   three", " with \"quotes\" and 'single'", " back\\slash \\n literal", " braces {0} {{x}}",
             " naïve 日本語 🦀", "\ttab first", " trailing space ", " # heading", " ```rust", "    let x = 1; // indented code", " -- dashes --"]


def rand_docs(r):
    n = r.choice([0, 0, 1, 1, 2, 3, 4])
    out = []
    for _ in range(n):
        t = r.choice(DOC_TEXTS)
        form = r.choice(["///", "///", "attr", "block"])
        if form == "///" and ("\n" in t):
            form = "attr"
        if form == "///" and t.startswith("/"):
            form = "attr"
        if form == "block" and ("*/" in t or t.startswith("*") or t.startswith("/") or t == ""):
            form = "attr"
        if form == "///" and t == "" and r.random() < 0.5:
            form = "attr"
        out.append((form, t))
    return out


def doc_values(v):
    """The string value rustc hands to the macro for each doc attribute."""
    return [t for _, t in v.docs]


def decorate(r, spec):
    for v in spec.variants:
        x = r.random()
        if x < 0.3:
            v.message = r.choice(MSGS)
        elif x < 0.5:
            v.detailed_message = r.choice(MSGS)
        elif x < 0.75:
            v.message = r.choice(MSGS)
            v.detailed_message = r.choice(MSGS)
        v.docs = rand_docs(r)
        if r.random() < 0.1:
            v.extra_attrs.append("#[doc(hidden)]")
    return spec


def glue(spec):
    ty = spec.ty()
    n = len(spec.variants)
    def opt(s):
        return "None" if s is None else "Some(%s)" % rs_str(s)
    msgs, dets, docs = [], [], []
    for v in spec.variants:
        if v.disabled:
            msgs.append(None); dets.append(None); docs.append(None)
        else:
            msgs.append(v.message)
            dets.append(v.detailed_message if v.detailed_message is not None else v.message)
            docs.append(model.doc_text(doc_values(v)))
    body = spec.render() + "\n"
    body += "pub fn drive(m: &mut vmon::Mon) {\n"
    body += "    " + samples_vec(spec, list(range(n))) + "\n"
    body += "    let msgs: &[Option<&str>] = &[%s];\n" % ", ".join(opt(x) for x in msgs)
    body += "    let dets: &[Option<&str>] = &[%s];\n" % ", ".join(opt(x) for x in dets)
    body += "    let docs: &[Option<&str>] = &[%s];\n" % ", ".join(opt(x) for x in docs)
    body += "    let sers: &[&[&str]] = &[%s];\n" % ", ".join(str_slice(model.spellings(v, spec.serialize_all)) for v in spec.variants)
    body += "    for (idx, e) in samples.iter() {\n"
    body += "        let subj = format!(\"{:?}\", e);\n"
    body += "        m.expect_eq(\"message\", \"get_message\", &subj, &strum::EnumMessage::get_message(e), &msgs[*idx], true);\n"
    body += "        m.expect_eq(\"message\", \"get_detailed_message\", &subj, &strum::EnumMessage::get_detailed_message(e), &dets[*idx], true);\n"
    body += "        m.expect_eq(\"message\", \"get_documentation\", &subj, &strum::EnumMessage::get_documentation(e), &docs[*idx], true);\n"
    body += "        vmon::names::check_set(m, \"message\", \"get_serializations\", &subj, strum::EnumMessage::get_serializations(e), sers[*idx], true);\n"
    # the same getters reached the other ways a caller can reach them: through a trait object and through a double reference
    body += "        { let dyn__ref: &dyn strum::EnumMessage = e;\n"
    body += "          m.expect_eq(\"message\", \"get_message via &dyn\", &subj, &dyn__ref.get_message(), &msgs[*idx], true);\n"
    body += "          m.expect_eq(\"message\", \"get_detailed_message via &dyn\", &subj, &dyn__ref.get_detailed_message(), &dets[*idx], true);\n"
    body += "          m.expect_eq(\"message\", \"get_documentation via &dyn\", &subj, &dyn__ref.get_documentation(), &docs[*idx], true); }\n"
    body += "        { use strum::EnumMessage as _; let dbl__ref = &e;\n"
    body += "          m.expect_eq(\"message\", \"get_message via &&E\", &subj, &dbl__ref.get_message(), &msgs[*idx], true);\n"
    body += "          m.expect_eq(\"message\", \"get_detailed_message via &&E\", &subj, &dbl__ref.get_detailed_message(), &dets[*idx], true);\n"
    body += "          m.expect_eq(\"message\", \"get_documentation via &&E\", &subj, &dbl__ref.get_documentation(), &docs[*idx], true); }\n"
    body += "    }\n}\n"
    return body


def systematic():
    specs = []
    k = 0
    r = gen.rng_for(0, "c14-sys")
    for ndocs in range(0, 5):
        for msg in (False, True):
            for det in (False, True):
                for disabled_pos in (None, 0, 1, 2):
                    vs = []
                    ids = gen.pick_idents(r, 3)
                    for j in range(3):
                        kind = ["unit", "tuple", "named"][(j + k) % 3]
                        v = Variant(ident=ids[j], kind=kind, fields=gen.rand_fields(r, kind, nmax=2))
                        if msg:
                            v.message = "msg %d/%d" % (k, j)
                        if det:
                            v.detailed_message = "detailed %d/%d" % (k, j)
                        v.docs = [(["///", "attr", "block"][(i + j) % 3], [" doc line %d" % i, "  indented %d" % i, "", "x%d" % i][(i + k) % 4]) for i in range(ndocs)]
                        v.docs = [(f if not (f == "block" and t == "") else "attr", t) for f, t in v.docs]
                        v.disabled = (disabled_pos == j)
                        if j == 1:
                            v.serialize = ["alias-%d" % k, "a%d" % k]
                        if j == 2:
                            v.to_string = "ts %d" % k
                        v.split_attrs = (j + k) % 3
                        vs.append(v)
                    specs.append(EnumSpec(name="S%d" % k, variants=vs, derives=["EnumMessage"], serialize_all=[None, "snake_case", "UPPERCASE"][k % 3],
                                          prefix=[None, "pfx/"][k % 2]))
                    k += 1
    return specs


def check(run):
    deps, vmon = setup(run)
    thorough = run.tier == "thorough"
    specs = systematic()
    r = gen.rng_for(run.seed, "c14")
    for i in range(8000 if thorough else 2500):
        s = strgen.build(r, "R%d" % i, ["EnumMessage"], n=(45 if i in (5, 6) else r.choice([1, 2, 3, 4, 6, 9])), allow_default=False, allow_prefix=True, allow_default_with=False,
                         generics_pool=(None, None, "T", "a", "aT", "N", "TU", "Tw", "aTw", "I", "aI", "Tdef", "TwU", "Tnd", "NT"))
        gen.add_noise(r, s, skip=("message", "docs", "serialize", "serialize_all", "prefix"))
        specs.append(decorate(r, s))
    units = [shards.Unit("u_" + s.name.lower(), glue(s), meta={"enum_src": s.render(), "bare_src": s.render_bare()}, sig=s.signature()) for s in specs]
    run.rule = RULE
    samples = standard_flow(run, units, deps["std"], vmon, profiles=("debug",), tag="c14")
    pick_samples(run, samples, {u.name: u for u in units})
    run.extra["programs"] = len(units)
    run.assumptions = ["rustc passes `///x` as #[doc = \"x\"] and `/**x*/` as #[doc = \"x\"] verbatim", "derive(Debug) of std is correct"]
