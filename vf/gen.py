"""Shared corpus-generation helpers: identifier and literal pools, random variants."""
import itertools
import random

from . import model
from .spec import EnumSpec, Field, Variant

IDENTS = [
    "Red", "Green", "Blue", "DarkBlack", "LightGrey", "HTTPServer", "XMLHttpRequest", "Utf8", "Sha256Sum",
    "V2", "Hello2You", "TLSv13", "Vec3D", "A", "B", "Ab", "ABC", "IOError", "Snake_Case", "mixed_Case_name",
    "lower", "UPPER", "Trailing_", "__Dunder", "X1", "Point3d", "MyURLParser", "Id", "ID2", "NotFound404",
    "Ok200", "E", "Zeta", "Alpha1Beta2", "OneTwoThree", "Web2Print", "Q", "Rgb8", "BGRA", "ToDo",
    # names that differ only in letter case / only after snake-casing, and names the templates or the prelude also use
    "Mb", "MB", "Ok", "OK", "Io_Error", "IO_ERROR", "SetUp", "Setup", "LogIn", "Login", "FooBar", "Foobar",
    "Err", "None", "Some", "Error", "Result", "Item", "Output", "Default", "Iter", "Table", "Discriminant", "Value",
    "V1", "V_1", "rustLang", "r2_d2", "ring_road", "rr",
    # identifiers whose snake_case form is a keyword, two of which (crate, super) cannot even be raw identifiers
    "Crate", "Super", "Const", "Dyn", "Await", "Impl",
]
RAW_KEYWORDS = ["type", "match", "fn", "loop", "async", "mod", "struct", "use", "move", "ref"]


def rawify(r, spec, explicit_names, prob=0.15):
    """Turn one variant identifier into a raw identifier (r#type, ...).  How strum NAMES such a variant is not pinned by any
    property, so where names matter the variant gets an explicit to_string (explicit_names=True)."""
    if not spec.variants or r.random() >= prob:
        return None
    v = r.choice(spec.variants)
    kw = r.choice(RAW_KEYWORDS)
    if any(o.ident in ("r#" + kw, kw) for o in spec.variants) or v.default or v.transparent:
        return None
    v.ident = "r#" + kw
    if explicit_names and not v.serialize and v.to_string is None:
        v.to_string = "raw-" + kw
    return v

FIELD_NAMES = ["f", "s", "x", "idx", "value", "prop", "field0", "a", "b", "name", "inner", "fmt", "val", "self_", "other", "n", "y", "z"]

SAFE_TYPES = ["u8", "i32", "bool", "String", "OptU8", "VecU8", "char", "i64", "u16", "Unit", "Tup"]

# hostile spellings; no braces (C17 treats those separately)
SPELLINGS_ASCII = ["red", "Red", "RED", "rEd", "blue", "Blue", "dark-black", "dark_black", "DarkBlack", "x", "X", "yes", "No",
                   "a b", " lead", "trail ", "1", "42", "3.14", "-", "_", "--", "a.b", "a,b", "with\"quote", "back\\slash",
                   "tab\tsep", "hello world", "HelloWorld", "hello_world", "HELLO_WORLD", "kebab-case-name", "MiXeD",
                   "q", "Q", "zz", "ZZ", "zZ", "k", "K", "s", "S", "i", "I", "ss", "SS", "sS", "ok", "OK", "Ok",
                   "alpha", "beta", "gamma", "delta", "ALPHA", "Beta", "#hash", "@at", "100%", "a/b", "a:b", "(paren)", "[brk]",
                   "semi;colon", "new\nline", "'single'", "<tag>", "a=b", "a+b", "~tilde", "^caret", "$dollar", "&amp", "*star", "pipe|", "?", "!"]
SPELLINGS_UNI = ["é", "É", "café", "CAFÉ", "straße", "STRASSE", "İstanbul", "ı", "K", "ſ", "ß", "日本語", "界", "🦀", "naïve", "Σίσυφος", "σ", "ς",
                 "Ünï", "ünï", "é", "ﬁ", "Ǆ", "ǅ", "ǆ", " nbsp", "зима", "ЗИМА"]

PREFIXES = ["", "pre_", "NS::", "é-", "界", "a b ", "X"]
# literals made of escaped (doubled) braces only: no {placeholder}, so they are fixed names
SPELLINGS_BRACES = ["{{", "}}", "{{}}", "{{open", "close}}", "a{{b}}c", "{{0}}", "{{x}}", "}}{{", "{{{{", "é{{é}}"]


def rng_for(seed, *salt):
    return random.Random("%s/%s" % (seed, "/".join(str(s) for s in salt)))


def pick_idents(r, n, pool=None, avoid_snake_collisions=False):
    pool = list(pool or IDENTS)
    r.shuffle(pool)
    out = []
    seen_snake = set()
    k = 0
    while len(out) < n:
        if pool:
            c = pool.pop()
        else:
            k += 1
            c = "V%d" % k if not avoid_snake_collisions else "Var" + "abcdefghijklmnopqrstuvwxyz"[k % 26].upper() + "x" * (k // 26)
        if c in out:
            continue
        if avoid_snake_collisions:
            sn = model.snakify(c)
            if sn in seen_snake:
                continue
            seen_snake.add(sn)
        out.append(c)
    return out


def rand_fields(r, kind, nmax=3, types=None, generics=None, distinct_types=False):
    types = list(types or SAFE_TYPES)
    if generics in ("T", "Tw", "TU", "aT", "TN", "aTw", "Tdef", "TNdef", "aTwd", "TwU", "NT"):
        types.append("T")
    if generics == "Tnd":
        types += ["OptT", "VecT"]
    if generics == "NT":
        types.append("CG")
    if generics == "TwU":
        types.append("U")
    if generics == "aTwd":
        types.append("RefStr")
    if generics == "TNdef":
        types.append("CG")
    if generics == "aTw":
        types.append("RefStr")
    if generics == "I":
        types.append("Item")
    if generics == "aI":
        types.append("RefItem")
    if generics == "TU":
        types.append("U")
    if generics in ("a", "aT"):
        types.append("RefStr")
    if generics in ("N", "TN"):
        types.append("CG")
    if kind == "unit":
        return []
    n = r.randint(1, nmax) if r.random() < 0.85 else 0
    if distinct_types:
        tys = r.sample(types, min(n, len(types)))
    else:
        tys = [r.choice(types) for _ in range(n)]
    if kind == "tuple":
        return [Field(ty=t) for t in tys]
    names = r.sample(FIELD_NAMES, len(tys))
    return [Field(ty=t, name=nm) for t, nm in zip(tys, names)]


def ensure_generics_used(r, spec):
    """Every declared generic parameter must be used by some field, otherwise rustc rejects the enum."""
    g = spec.generics
    need = {"T": ["T"], "Tw": ["T"], "TU": ["T", "U"], "a": ["RefStr"], "aT": ["RefStr", "T"], "N": ["CG"], "TN": ["T", "CG"],
            "aTw": ["RefStr", "T"], "I": ["Item"], "aI": ["RefItem"], "Tdef": ["T"], "TNdef": ["T", "CG"],
            "aTwd": ["RefStr", "T"], "TwU": ["T", "U"], "NT": ["T", "CG"], "Tnd": ["OptT"]}.get(g, [])
    used = {f.ty for v in spec.variants for f in v.fields}
    missing = [t for t in need if t not in used]
    if not missing:
        return
    # add a carrier variant at a random position
    fields = [Field(ty=t) for t in missing]
    ident = "Carrier"
    while any(v.ident == ident for v in spec.variants):
        ident += "X"
    v = Variant(ident=ident, kind="tuple", fields=fields)
    spec.variants.insert(r.randint(0, len(spec.variants)), v)


NOISE_MSGS = ["noise message", "", "{braces}"]


def add_noise(r, spec, enum_level=True, variant_level=True, skip=()):
    """Attributes that are consumed by OTHER derives than the one under test (plus foreign helper attributes):
    they must not influence the derive under test."""
    if enum_level:
        if "serialize_all" not in skip and spec.serialize_all is None and r.random() < 0.4:
            spec.serialize_all = r.choice(model.STYLE_STRINGS)
        if "aci" not in skip and r.random() < 0.3:
            spec.aci = True
        if "prefix" not in skip and spec.prefix is None and r.random() < 0.25:
            spec.prefix = r.choice(PREFIXES)
        if r.random() < 0.5:
            spec.attr_order_seed = r.randint(1, 6)
        if "nest" not in skip and spec.vis == "pub" and r.random() < 0.2:
            # the enum lives in its own module and is used from the parent; with a restricted visibility half of the time
            spec.nest = True
            if r.random() < 0.5:
                spec.vis = r.choice(["pub(crate)", "pub(super)", "pub(in super::super)"])
    if variant_level:
        unit = [v for v in spec.variants if v.kind == "unit"]
        if "std_default" not in skip and unit and not spec.generics and r.random() < 0.3 and "Default" not in spec.std_derives:
            # #[derive(Default)] with its #[default] helper attribute on one unit variant
            spec.std_derives = list(spec.std_derives) + ["Default"]
            r.choice(unit).extra_attrs.append("#[default]")
        for v in spec.variants:
            if "serialize" not in skip and not v.serialize and v.to_string is None and r.random() < 0.2:
                v.serialize = ["noise-%s" % v.ident]
            if "aci" not in skip and v.aci is None and r.random() < 0.2:
                v.aci = r.random() < 0.6
            if "message" not in skip and v.message is None and r.random() < 0.2:
                v.message = r.choice(NOISE_MSGS)
            if "props" not in skip and not v.props and r.random() < 0.2:
                v.props = [[("noise", "str", "n"), ("k", "int", 1)]]
            if "docs" not in skip and not v.docs and r.random() < 0.2:
                v.docs = [("///", " noise doc")]
            if r.random() < 0.15:
                v.extra_attrs.append(r.choice(["#[allow(dead_code)]", "#[cfg(all())]", "#[allow(non_camel_case_types, dead_code)]",
                                               "#[doc(hidden)]", "#[doc(alias = \"noise_alias\")]"]))
            if r.random() < 0.3:
                v.split_attrs = r.choice([0, 1, 2])
                v.attr_order_seed = r.randint(0, 9)
    return spec


def maybe_macro_wrap(r, spec, prob=0.12):
    """Declare the enum through a macro_rules! template, its name arriving as a macro argument (items generated by
    declarative macros are ordinary derive input, but their tokens carry other spans / hygiene)."""
    if r.random() < prob and not spec.macro_params:
        spec.macro_params = [("enum ", spec.name, "ident")]
        if spec.generics:
            spec.macro_params.append(("= ", spec.name, "ident"))
        spec.tags.append("macro-declared")
    return spec


def all_masks(n):
    return list(itertools.product([False, True], repeat=n))


def distinct_len_spellings(r, k, pool, taken):
    """k spellings with pairwise distinct UTF-8 byte lengths and char counts, none in `taken`."""
    out = []
    tries = 0
    while len(out) < k and tries < 500:
        tries += 1
        s = r.choice(pool)
        if s in taken or s in out:
            continue
        if any(len(s.encode()) == len(o.encode()) or len(s) == len(o) for o in out):
            continue
        out.append(s)
    return out
