"""Core orchestration: dependency build, direct-rustc shard compilation, monitored runs,
verdicts, evidence.  Python stdlib only."""
import concurrent.futures as cf
import fcntl
import hashlib
import json
import os
import re
import shutil
import subprocess
import sys
import time

VERIF = os.path.dirname(os.path.dirname(os.path.abspath(__file__)))
REPO = os.path.abspath(os.environ.get("VERIF_REPO", "/repo"))
TARGET = os.path.join(VERIF, "target")
NCPU = int(os.environ.get("VERIF_JOBS", str(os.cpu_count() or 4)))

ENV = dict(os.environ)
ENV.update({"CARGO_NET_OFFLINE": "true", "RUSTC_BOOTSTRAP": ENV.get("RUSTC_BOOTSTRAP", "")})
ENV.pop("RUSTC_BOOTSTRAP")
ENV.pop("STRUM_DEBUG", None)


class Inconclusive(Exception):
    pass


def log(*a):
    print(*a, file=sys.stderr, flush=True)


COVERAGE = bool(os.environ.get("VERIF_COVERAGE"))
COVDIR = os.path.join(TARGET, "coverage")
if COVERAGE:
    # reach audit (DESIGN §8): strum_macros is built with -Cinstrument-coverage and every rustc that loads it
    # dumps a profile; reporting only, never decides
    os.makedirs(COVDIR, exist_ok=True)
    ENV["LLVM_PROFILE_FILE"] = os.path.join(COVDIR, "%p-%m.profraw")


def repokey():
    k = re.sub(r"[^A-Za-z0-9]+", "_", REPO).strip("_") or "root"
    return k + ("_cov" if COVERAGE else "")


# --------------------------------------------------------------------------------------------
# dependency build (cargo), one target dir per (repo, config)
# --------------------------------------------------------------------------------------------
DEP_CONFIGS = {
    # name: (features, default_features)
    "std": (["derive"], True),
    "phf": (["derive", "phf"], True),
    "nostd": (["derive"], False),
    "nostdphf": (["derive", "phf"], False),
}


def tree_hash():
    h = hashlib.sha256()
    for sub in ("strum", "strum_macros"):
        base = os.path.join(REPO, sub)
        for root, dirs, files in os.walk(base):
            dirs[:] = sorted(d for d in dirs if d not in ("target", ".git"))
            for f in sorted(files):
                p = os.path.join(root, f)
                if not (f.endswith(".rs") or f.endswith(".toml")):
                    continue
                h.update(os.path.relpath(p, REPO).encode())
                with open(p, "rb") as fh:
                    h.update(hashlib.sha256(fh.read()).digest())
    return h.hexdigest()


class Deps:
    def __init__(self, cfg, strum_rlib, deps_dir):
        self.cfg = cfg
        self.strum_rlib = strum_rlib
        self.deps_dir = deps_dir

    def externs(self, name="strum"):
        return ["--extern", "%s=%s" % (name, self.strum_rlib), "-L", "dependency=" + self.deps_dir]


def build_deps(cfg):
    """Build strum (+strum_macros) from REPO's current working tree in configuration cfg.
    Returns Deps.  Raises Inconclusive when the tree itself does not build."""
    feats, default = DEP_CONFIGS[cfg]
    base = os.path.join(TARGET, repokey(), cfg)
    pkg = os.path.join(base, "pkg")
    os.makedirs(os.path.join(pkg, "src"), exist_ok=True)
    lockf = open(os.path.join(base, ".lock"), "w")
    fcntl.flock(lockf, fcntl.LOCK_EX)
    try:
        toml = (
            '[package]\nname = "vdeps_%s"\nversion = "0.0.0"\nedition = "2021"\n\n[dependencies]\n'
            'strum = { path = "%s/strum", default-features = %s, features = [%s] }\n\n[workspace]\n'
            % (cfg, REPO, "true" if default else "false", ", ".join('"%s"' % f for f in feats))
        )
        tp = os.path.join(pkg, "Cargo.toml")
        if not os.path.exists(tp) or open(tp).read() != toml:
            open(tp, "w").write(toml)
        lp = os.path.join(pkg, "src", "lib.rs")
        if not os.path.exists(lp):
            open(lp, "w").write("#![no_std]\n")
        lock_src = os.path.join(REPO, "Cargo.lock")
        lock_dst = os.path.join(pkg, "Cargo.lock")
        if os.path.exists(lock_src) and not os.path.exists(lock_dst):
            shutil.copy(lock_src, lock_dst)
        tdir = os.path.join(base, "t")
        env = dict(ENV)
        env["CARGO_TARGET_DIR"] = tdir
        if COVERAGE:
            env["RUSTFLAGS"] = "-Cinstrument-coverage"
        stamp = os.path.join(base, "tree.hash")
        th = tree_hash()
        old = open(stamp).read().strip() if os.path.exists(stamp) else None
        if old is not None and old != th and os.path.isdir(tdir):
            # content changed: do not trust mtimes, force strum and strum_macros to be rebuilt
            subprocess.run(
                ["cargo", "clean", "--offline", "-p", "strum", "-p", "strum_macros"],
                cwd=pkg, env=env, stdout=subprocess.DEVNULL, stderr=subprocess.DEVNULL,
            )
        t0 = time.time()
        p = subprocess.run(
            ["cargo", "build", "--offline", "--message-format=json", "-j", str(NCPU)],
            cwd=pkg, env=env, stdout=subprocess.PIPE, stderr=subprocess.PIPE, text=True,
        )
        if p.returncode != 0:
            raise Inconclusive("dependency build (%s) failed:\n%s" % (cfg, p.stderr[-3000:]))
        rlib = None
        for line in p.stdout.splitlines():
            try:
                j = json.loads(line)
            except ValueError:
                continue
            if j.get("reason") == "compiler-artifact" and j.get("target", {}).get("name") == "strum":
                for f in j.get("filenames", []):
                    if f.endswith(".rlib"):
                        rlib = f
        if not rlib:
            raise Inconclusive("dependency build (%s): strum rlib not found" % cfg)
        open(stamp, "w").write(th)
        log("[deps] %s built in %.1fs (%s)" % (cfg, time.time() - t0, os.path.basename(rlib)))
        return Deps(cfg, rlib, os.path.join(tdir, "debug", "deps"))
    finally:
        fcntl.flock(lockf, fcntl.LOCK_UN)
        lockf.close()


def build_vmon():
    """Compile the monitor library (independent of strum) once per source hash."""
    src = os.path.join(VERIF, "vmon", "src", "lib.rs")
    h = hashlib.sha256()
    for root, _, files in os.walk(os.path.join(VERIF, "vmon", "src")):
        for f in sorted(files):
            h.update(open(os.path.join(root, f), "rb").read())
    key = h.hexdigest()[:16]
    outdir = os.path.join(TARGET, "vmon", key)
    out = os.path.join(outdir, "libvmon.rlib")
    os.makedirs(outdir, exist_ok=True)
    lockf = open(os.path.join(TARGET, "vmon", ".lock"), "w")
    fcntl.flock(lockf, fcntl.LOCK_EX)
    try:
        if not os.path.exists(out):
            p = subprocess.run(
                ["rustc", "--edition", "2021", "--crate-type", "rlib", "--crate-name", "vmon",
                 "-C", "opt-level=2", "-C", "debug-assertions=off", "-A", "warnings",
                 "-o", out + ".tmp", src],
                env=ENV, stdout=subprocess.PIPE, stderr=subprocess.PIPE, text=True,
            )
            if p.returncode != 0:
                raise Inconclusive("vmon build failed:\n" + p.stderr[-4000:])
            os.replace(out + ".tmp", out)
    finally:
        fcntl.flock(lockf, fcntl.LOCK_UN)
        lockf.close()
    return out


# --------------------------------------------------------------------------------------------
# direct rustc
# --------------------------------------------------------------------------------------------
class Compiled:
    def __init__(self, ok, diags, out, wall, stderr_raw=""):
        self.ok = ok
        self.diags = diags  # list of dict(level,message,line,rendered,children)
        self.out = out
        self.wall = wall
        self.stderr_raw = stderr_raw

    def errors(self):
        return [d for d in self.diags if d["level"].startswith("error")]


def parse_diags(stderr):
    out = []
    for line in stderr.splitlines():
        if not line.startswith("{"):
            continue
        try:
            j = json.loads(line)
        except ValueError:
            continue
        if "message" not in j or "level" not in j:
            continue
        spans = j.get("spans") or []
        prim = [s for s in spans if s.get("is_primary")] or spans
        lines = []
        for s in prim:
            # walk macro expansion back to the user-visible call site
            cur = s
            while cur.get("expansion") and cur["expansion"].get("span"):
                cur = cur["expansion"]["span"]
            lines.append((cur.get("file_name"), cur.get("line_start"), cur.get("line_end")))
        out.append({
            "level": j["level"],
            "message": j["message"],
            "code": (j.get("code") or {}).get("code"),
            "lines": lines,
            "children": [c.get("message", "") for c in j.get("children", [])],
            "rendered": (j.get("rendered") or "")[:1500],
        })
    return out


def rustc(src, out, deps, crate_type="bin", opt="0", debug_assert=True, extra=(), vmon=None,
          extern_name="strum", timeout=900, cfgs=()):
    cmd = ["rustc", "--edition", "2021", "--crate-type", crate_type, "--error-format=json",
           "-A", "warnings", "-C", "opt-level=" + opt,
           "-C", "debug-assertions=" + ("on" if debug_assert else "off"),
           "-C", "codegen-units=4", "-o", out, src]
    if deps is not None:
        cmd += deps.externs(extern_name)
    if vmon:
        cmd += ["--extern", "vmon=" + vmon]
    for c in cfgs:
        cmd += ["--cfg", c]
    cmd += list(extra)
    t0 = time.time()
    try:
        p = subprocess.run(cmd, env=ENV, stdout=subprocess.PIPE, stderr=subprocess.PIPE, text=True,
                           timeout=timeout)
    except subprocess.TimeoutExpired:
        raise Inconclusive("rustc timed out on " + src)
    if p.returncode != 0 and ("extern location for" in p.stderr and "does not exist" in p.stderr):
        # the dependency artifacts were replaced under us (another check rebuilt them after /repo changed): infrastructure, not a verdict
        raise Inconclusive("dependency artifact vanished while compiling (concurrent rebuild of strum?)")
    diags = parse_diags(p.stderr)
    return Compiled(p.returncode == 0, diags, out, time.time() - t0, p.stderr)


def pmap(fn, items, jobs=None):
    jobs = jobs or NCPU
    if not items:
        return []
    with cf.ThreadPoolExecutor(max_workers=jobs) as ex:
        return list(ex.map(fn, items))


class Timeout(Exception):
    def __init__(self, path, seconds, partial):
        Exception.__init__(self, "watchdog: %s exceeded %ds" % (path, seconds))
        self.partial = partial


def run_bin(path, args=(), timeout=1200, env_extra=None, raise_timeout=False):
    """Run a shard binary under a watchdog.  Returns (rc, stdout_lines, stderr)."""
    env = dict(ENV)
    env["RUST_BACKTRACE"] = "0"
    if env_extra:
        env.update(env_extra)
    p = subprocess.Popen([path] + list(args), env=env, stdout=subprocess.PIPE, stderr=subprocess.PIPE)
    try:
        out, err = p.communicate(timeout=timeout)
    except subprocess.TimeoutExpired:
        p.kill()
        out, err = p.communicate()
        if raise_timeout:
            raise Timeout(path, timeout, out.decode("utf-8", "replace").splitlines())
        raise Inconclusive("watchdog: %s exceeded %ds" % (path, timeout))
    return p.returncode, out.decode("utf-8", "replace").splitlines(), err.decode("utf-8", "replace")


# --------------------------------------------------------------------------------------------
# run context: work dir, violations, evidence
# --------------------------------------------------------------------------------------------
class Run:
    def __init__(self, pid, tier, seed):
        self.pid = pid
        self.tier = tier
        self.seed = seed
        self.t0 = time.time()
        self.work = os.path.join(VERIF, "work", "%s-%s-%d" % (pid, tier, os.getpid()))
        shutil.rmtree(self.work, ignore_errors=True)
        os.makedirs(self.work)
        self.violations = []     # dicts with at least sig, what
        self.counters = {}
        self.samples = []
        self.evaluations = 0
        self.distinct = 0
        self.extra = {}
        self.assumptions = []
        self.rule = ""
        self.exhaustive = None
        self.keep_work = False

    def path(self, *p):
        return os.path.join(self.work, *p)

    def count(self, key, n=1):
        self.counters[key] = self.counters.get(key, 0) + n

    def violation(self, sig, what, detail=None, replay_src=None, replay_meta=None):
        v = {"sig": sig, "what": what, "detail": detail or {}}
        if replay_src is not None:
            v["replay_src"] = replay_src
        if replay_meta:
            v["replay_meta"] = replay_meta
        self.violations.append(v)

    def cleanup(self):
        if not self.keep_work:
            shutil.rmtree(self.work, ignore_errors=True)


def load_known():
    p = os.environ.get("VERIF_KNOWN_FINDINGS") or os.path.join(VERIF, "known_findings.json")
    if not os.path.exists(p):
        return []
    j = json.load(open(p))
    return [f for f in j.get("findings", [])]


def finish(run, level="exploration"):
    """Apply known findings, write evidence and replay files, print verdict lines, return exit code."""
    known = [k for k in load_known() if k.get("property") == run.pid]
    new, kn = [], []
    for v in run.violations:
        hit = None
        for k in known:
            if k.get("signature") and k["signature"] == v["sig"]:
                hit = k
                break
            if k.get("signature_prefix") and v["sig"].startswith(k["signature_prefix"]):
                hit = k
                break
        (kn if hit else new).append((v, hit))
    # de-duplicate by signature for reporting
    seen = set()
    new_unique = []
    for v, _ in new:
        if v["sig"] in seen:
            continue
        seen.add(v["sig"])
        new_unique.append(v)
    seen_k = set()
    for v, k in kn:
        ksig = k.get("signature") or k.get("signature_prefix")
        if ksig in seen_k:
            continue
        seen_k.add(ksig)
        print("KNOWN-FINDING: property=%s %s" % (run.pid, k.get("description", ksig)))
    rc = 0
    replay_paths = []
    if new_unique:
        rdir = os.path.join(VERIF, "replays", run.pid)
        os.makedirs(rdir, exist_ok=True)
        for v in new_unique[:25]:
            h = hashlib.sha256(v["sig"].encode()).hexdigest()[:12]
            rp = os.path.join(rdir, h + ".json")
            body = {"property": run.pid, "signature": v["sig"], "what": v["what"], "detail": v["detail"],
                    "seed": run.seed, "tier": run.tier, "repo": REPO}
            if "replay_src" in v:
                body["source"] = v["replay_src"]
            if "replay_meta" in v:
                body["meta"] = v["replay_meta"]
            with open(rp, "w") as fh:
                json.dump(body, fh, indent=1)
            replay_paths.append(rp)
            print("VIOLATION property=%s replay=%s" % (run.pid, rp))
            print("  what: %s" % v["what"][:600])
        if len(new_unique) > 25:
            print("  (+%d further distinct violation signatures)" % (len(new_unique) - 25))
        rc = 1
    wall = time.time() - run.t0
    cov = {
        "evaluations": int(run.evaluations),
        "distinct_nontrivial": int(run.distinct),
        "rule": run.rule,
        "samples": run.samples[:40] if run.samples else [],
        "counters": dict(sorted(run.counters.items())),
    }
    if run.exhaustive is not None:
        cov["exhaustive"] = bool(run.exhaustive)
    cov.update(run.extra)
    ev = {
        "property_id": run.pid,
        "tier": run.tier,
        "seed": int(run.seed),
        "level": level,
        "coverage": cov,
        "assumptions": run.assumptions,
        "wall_s": round(wall, 2),
        "violations": len(new_unique),
        "known_findings_seen": sorted(seen_k),
        "repo": REPO,
        "tree_hash": tree_hash()[:16],
    }
    if run.evaluations < 1 or run.distinct < 2 or not run.samples:
        # a monitor that observed nothing decides nothing
        if rc == 0:
            print("INCONCLUSIVE property=%s reason=monitor observed too little (evaluations=%d distinct=%d)"
                  % (run.pid, run.evaluations, run.distinct))
            rc = 2
    if (REPO == "/repo" and not os.environ.get("VERIF_NO_EVIDENCE")) or os.environ.get("VERIF_WRITE_EVIDENCE"):
        os.makedirs(os.path.join(VERIF, "evidence"), exist_ok=True)
        with open(os.path.join(VERIF, "evidence", run.pid + ".json"), "w") as fh:
            json.dump(ev, fh, indent=1, ensure_ascii=False)
    log("[%s] tier=%s seed=%s evaluations=%d distinct_nontrivial=%d violations=%d known=%d wall=%.1fs"
        % (run.pid, run.tier, run.seed, run.evaluations, run.distinct, len(new_unique), len(seen_k), wall))
    if rc == 0:
        print("OK property=%s held on %d observations (%d distinct non-trivial cases)"
              % (run.pid, run.evaluations, run.distinct))
    return rc
