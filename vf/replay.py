"""./check <ID> --replay <file>: rebuild the one program of a replay file against the current tree and
re-run its monitor.  exit 1 (+VIOLATION line) when the violation reproduces, 0 when it does not, 2 on infrastructure errors."""
import json
import os

from . import core, shards


def replay(pid, path):
    j = json.load(open(path))
    meta = j.get("meta") or {}
    src = j.get("source")
    if not src:
        print("INCONCLUSIVE property=%s reason=replay file has no program source" % pid)
        return 2
    run = core.Run(pid, "replay", int(j.get("seed", 0)))
    try:
        kind = meta.get("kind", "run")
        cfgname = meta.get("deps") or ("nostd" if meta.get("config") == "a_nostd" else "std")
        if cfgname not in core.DEP_CONFIGS:
            cfgname = "std"
        deps = core.build_deps(cfgname)
        extern = "renamed" if str(meta.get("config", "")).startswith("b_") else "strum"
        sp = run.path("replay.rs")
        open(sp, "w").write(src)
        is_lib = "fn main()" not in src
        vmon = None if is_lib else core.build_vmon()
        prof = meta.get("bin_profile", "")
        opt, dbg = ("3", False) if "_release_" in prof else (("0", True) if "_debug_" in prof else ("1", True))
        c = core.rustc(sp, run.path("replay.bin"), deps, crate_type="lib" if is_lib else "bin", opt=opt, debug_assert=dbg, vmon=vmon,
                       extern_name=extern, extra=["--emit=metadata"] if is_lib else [])
        print("replay of %s (%s): %s" % (os.path.basename(path), kind, j.get("what", "")[:300]))
        if kind in ("compile", "must-reject", "no-panic", "compile-fail"):
            msgs = [d["message"] + " " + " ".join(d["children"]) for d in c.errors()]
            print("  compile %s; errors: %s" % ("ok" if c.ok else "failed", "; ".join(m[:160] for m in msgs[:4])))
            if kind == "compile":
                bad = not c.ok
            elif kind == "must-reject":
                bad = c.ok
            elif kind == "no-panic":
                bad = any("panicked" in m for m in msgs)
            else:
                bad = c.ok
            if bad:
                print("VIOLATION property=%s replay=%s" % (pid, path))
                return 1
            print("OK property=%s the recorded violation does not reproduce on the current tree" % pid)
            return 0
        if not c.ok:
            print("  program no longer compiles: %s" % shards.diag_summary(c))
            print("VIOLATION property=%s replay=%s" % (pid, path))
            return 1
        try:
            rc, lines, err = core.run_bin(c.out, meta.get("args") or [str(j.get("seed", 0)), "quick"], timeout=shards.UNIT_TIMEOUT, raise_timeout=True)
        except core.Timeout:
            print("  the program does not terminate within %d s" % shards.UNIT_TIMEOUT)
            print("VIOLATION property=%s replay=%s" % (pid, path))
            return 1
        viol = [l for l in lines if l.startswith("V\t") or l.startswith("P\t")]
        for l in viol[:10]:
            print("  " + l[:400])
        if viol:
            print("VIOLATION property=%s replay=%s" % (pid, path))
            return 1
        print("OK property=%s the recorded violation does not reproduce on the current tree (%d records)" % (pid, len(lines)))
        return 0
    except core.Inconclusive as e:
        print("INCONCLUSIVE property=%s reason=%s" % (pid, str(e)[:500]))
        return 2
    finally:
        run.cleanup()
