"""Generator for string-oriented enums (EnumString / Display / AsRefStr / ... corpora)."""
from . import gen, model
from .spec import EnumSpec, Field, Variant, TYPES
from .model import STYLE_STRINGS

# types usable as the single field of a `default` variant (must be From<&str>)
CAPTURE_TYPES = ["String", "BoxStr", "Captured"]
TYPES.setdefault("BoxStr", ("Box<str>", 'Box::<str>::from("")', ['Box::<str>::from("boxed")']))
TYPES.setdefault("Captured", ("Captured", "Captured(String::new())", ['Captured(String::from("cap"))']))

CAPTURE_HEAD = """
#[derive(Debug, PartialEq, Clone, Default)]
pub struct Captured(pub String);
impl<'a> From<&'a str> for Captured { fn from(s: &'a str) -> Self { Captured(s.to_string()) } }
impl std::fmt::Display for Captured { fn fmt(&self, f: &mut std::fmt::Formatter) -> std::fmt::Result { std::fmt::Display::fmt(&self.0, f) } }
"""


def rand_spelling(r, uni=True, braces=False):
    if braces and r.random() < 0.06:
        return r.choice(gen.SPELLINGS_BRACES)
    x = r.random()
    if x < 0.45:
        return r.choice(gen.SPELLINGS_ASCII)
    if x < 0.6 and uni:
        return r.choice(gen.SPELLINGS_UNI)
    if x < 0.62:
        return ""
    alpha = r.choice(["abAB", "aA1_", "xyXY-", "kKsSiI", "aé", "abc", "AB", "a b"] + (["éÉßK", "σΣς"] if uni else []))
    n = r.randint(1, 6)
    return "".join(r.choice(alpha) for _ in range(n))


def has_placeholder_braces(s):
    """True unless every brace in s is part of a doubled (escaped) pair."""
    t = s.replace("{{", "").replace("}}", "")
    return "{" in t or "}" in t


def claims_of(v, style, enum_aci):
    ci = model.effective_ci(v, enum_aci)
    return [(s, ci) for s in model.spellings(v, style)]


def conflict(c1, c2):
    for s1, ci1 in c1:
        for s2, ci2 in c2:
            if s1 == s2:
                return True
            if (ci1 or ci2) and model.fold_ascii(s1) == model.fold_ascii(s2):
                return True
    return False


def build(r, name, derives, n=None, styles=True, allow_default=True, allow_disabled=True, allow_aci=True,
          allow_prefix=False, fieldless=False, generics_pool=(None, None, None, "T", "a", "aT", "N", "Tw", "Tnd", "NT"),
          distinct_lengths=False, uni=True, naming_bias=0.6, max_n=9, capture_types=None, allow_default_with=True,
          forced_style="__unset__", dup_within_variant=True, allow_braces=False, allow_disabled_default=False, avoid_snake_collisions=False, raw_bare=False):
    """Random string enum inside the domain of C01 (non-overlapping spellings)."""
    if n is None:
        n = r.choice([0, 1, 2, 3, 3, 4, 5, 6, 7, max_n])
    generics = None if fieldless else r.choice(list(generics_pool))
    if forced_style != "__unset__":
        style = forced_style
    else:
        style = r.choice([None] + STYLE_STRINGS) if (styles and r.random() < 0.6) else None
    enum_aci = allow_aci and r.random() < 0.3
    spec = EnumSpec(name=name, variants=[], derives=list(derives), generics=generics, serialize_all=style, aci=enum_aci)
    if allow_prefix and r.random() < 0.5:
        spec.prefix = r.choice(gen.PREFIXES)
    spec.enum_attr_split = r.choice([0, 1])
    spec.attr_order_seed = r.choice([0, 0, 1, 2, 3, 4, 5, 6])
    idents = gen.pick_idents(r, n + 4, avoid_snake_collisions=avoid_snake_collisions)
    taken = []   # claims of all variants generated so far (including disabled/default ones)
    have_default = False
    dw_counter = [0]
    for i in range(n):
        for attempt in range(60):
            ident = idents[i] if attempt < 3 else "V%d_%d" % (i, attempt)
            kind = "unit" if fieldless else r.choice(["unit", "unit", "tuple", "named"])
            v = Variant(ident=ident, kind=kind)
            v.fields = gen.rand_fields(r, kind, generics=generics)
            # naming attributes
            x = r.random()
            if x < naming_bias:
                y = r.random()
                if y < 0.45:
                    k = r.choice([1, 1, 2, 3])
                    if distinct_lengths:
                        v.serialize = gen.distinct_len_spellings(r, k, [rand_spelling(r, uni, allow_braces) for _ in range(40)], [])
                    else:
                        v.serialize = [rand_spelling(r, uni, allow_braces) for _ in range(k)]
                        if dup_within_variant and k >= 2 and r.random() < 0.15:
                            # fold-equal spellings on one variant are legal (C16 repair note)
                            v.serialize[1] = v.serialize[0].swapcase() if v.serialize[0].swapcase() != v.serialize[0] else v.serialize[1]
                elif y < 0.7:
                    v.to_string = rand_spelling(r, uni, allow_braces)
                else:
                    v.to_string = rand_spelling(r, uni, allow_braces)
                    k = r.choice([1, 2])
                    v.serialize = [rand_spelling(r, uni, allow_braces) for _ in range(k)]
            if spec.prefix and (v.to_string is not None or v.serialize) and r.random() < 0.15:
                # an explicit name that itself begins with the enum's prefix text: the prefix is still prepended once more
                if v.to_string is not None:
                    v.to_string = spec.prefix + v.to_string
                else:
                    v.serialize = [spec.prefix + x for x in v.serialize]
            if any(has_placeholder_braces(x) for x in v.serialize + [v.to_string or ""]):
                continue
            if allow_aci:
                z = r.random()
                if z < 0.2:
                    v.aci = True
                    v.aci_bare = r.random() < 0.5
                elif z < 0.35:
                    v.aci = False
            if allow_disabled and r.random() < 0.15:
                v.disabled = True
            if allow_default and not have_default and r.random() < 0.25:
                v.default = True
                ct = r.choice(capture_types or CAPTURE_TYPES)
                if fieldless or r.random() < 0.6:
                    v.kind = "tuple"
                    v.fields = [Field(ty=ct)]
                else:
                    v.kind = "named"
                    v.fields = [Field(ty=ct, name=r.choice(gen.FIELD_NAMES))]
                if r.random() < 0.1:
                    v.disabled = True   # default + disabled: never installed as catch-all
            elif allow_disabled_default and r.random() < 0.08:
                # `default` on a disabled variant: the variant does not exist for the parser, so there is no catch-all
                v.default = True
                v.disabled = True
                v.kind = "tuple"
                v.fields = [Field(ty=r.choice(capture_types or CAPTURE_TYPES))]
            elif allow_default_with and not fieldless and v.kind == "tuple" and len(v.fields) == 1 and r.random() < 0.3:
                f = v.fields[0]
                if f.ty not in ("T", "U", "RefStr", "CG", "OptT", "VecT"):
                    dw_counter[0] += 1
                    v.default_with = "dw_%s_%d" % (name.lower(), dw_counter[0])
                    v.dw_expr = TYPES[f.ty][2][0]
            elif allow_default_with and v.kind == "named" and v.fields and r.random() < 0.3:
                for f in v.fields:
                    if f.ty not in ("T", "U", "RefStr", "CG", "OptT", "VecT") and r.random() < 0.6:
                        dw_counter[0] += 1
                        f.default_with = "dw_%s_%d" % (name.lower(), dw_counter[0])
                        f.dw_expr = TYPES[f.ty][2][0]
            v.split_attrs = r.choice([0, 0, 1, 2])
            v.attr_order_seed = r.randint(0, 9)
            cl = claims_of(v, style, enum_aci)
            if any(conflict(cl, t) for t in taken):
                continue
            if any(o.ident == v.ident for o in spec.variants):
                continue
            if distinct_lengths and v.to_string is None and len(v.serialize) >= 2:
                lens = [len(s.encode()) for s in v.serialize]
                if lens.count(max(lens)) != 1 or not model.unambiguous_longest(v.serialize):
                    continue
            taken.append(cl)
            if v.default and not v.disabled:
                have_default = True
            spec.variants.append(v)
            break
    gen.ensure_generics_used(r, spec)
    rv = gen.rawify(r, spec, explicit_names=not raw_bare, prob=0.08)
    if rv is not None and model.overlaps(spec):
        rv.ident = "RawFallback"
        rv.to_string = None if rv.to_string and rv.to_string.startswith("raw-") else rv.to_string
        if model.overlaps(spec):
            rv.to_string = "raw-fallback-name"
    assert not model.overlaps(spec)
    gen.maybe_macro_wrap(r, spec)
    if r.random() < 0.15:
        spec.nest = True      # declared in a nested module, used from the parent; half of the time with a restricted visibility
        if r.random() < 0.5:
            spec.vis = r.choice(["pub(crate)", "pub(super)"])
    return spec


def add_overlap(r, spec):
    """Add a variant whose spelling is a case variant of an existing one, at least one of the two being case-insensitive.
    Inputs claimed by both are not judged (spec.overlap); inputs claimed by exactly one of them still are."""
    cands = [v for v in spec.variants if not v.disabled and not v.default and any(any(c.isascii() and c.isalpha() for c in s) for s in model.spellings(v, spec.serialize_all))]
    if not cands:
        return False
    a = r.choice(cands)
    base = r.choice([s for s in model.spellings(a, spec.serialize_all) if any(c.isascii() and c.isalpha() for c in s)])
    alt = r.choice([base.swapcase(), base.upper(), base.lower(), base.capitalize()])
    if alt == base:
        alt = base.swapcase()
    if alt == base:
        return False
    a_ci = model.effective_ci(a, spec.aci)
    if not a_ci and r.random() < 0.3:
        alt = base          # the very same spelling on a later/earlier case-insensitive variant
    b = Variant(ident="Overlap%s" % spec.name, serialize=[alt])
    b.aci = True if not a_ci else r.choice([True, False, None])
    if not (a_ci or model.effective_ci(b, spec.aci)):
        b.aci = True
    pos = spec.variants.index(a)
    spec.variants.insert(pos if r.random() < 0.5 else pos + 1, b)
    spec.overlap = True
    spec.tags.append("overlap")
    return True


def default_with_fns(spec):
    """Rust definitions of the default_with functions referenced by the spec."""
    out = []
    for v in spec.variants:
        if v.default_with is not None and v.kind == "tuple":
            out.append("pub fn %s() -> %s { %s }" % (v.default_with, TYPES[v.fields[0].ty][0], v.dw_expr))
        for f in v.fields:
            if f.default_with is not None:
                out.append("pub fn %s() -> %s { %s }" % (f.default_with, TYPES[f.ty][0], f.dw_expr))
    return "\n".join(out)


def parse_glue(spec, spec_static="SPEC", extra=(), err_expr='|_s: &str| "VariantNotFound".to_string()', log_drain="None",
               err_map='|e| format!("{:?}", e)'):
    """Body of drive() for a parse-monitored enum (returns Rust statements)."""
    ty = spec.ty()
    lines = []
    lines.append("    " + _pspec(spec, spec_static, extra))
    allidx = list(range(len(spec.variants)))
    arms = []
    for i, v in enumerate(spec.variants):
        if v.default:
            arms.append("%d => unreachable!()" % i)
        else:
            arms.append("%d => %s" % (i, v.ctor(spec.path(), v.default_exprs(use_default_with=True))))
    arms.append("_ => unreachable!()")
    lines.append("    let make = |i: usize| -> %s { match i { %s } };" % (ty, ", ".join(arms)))
    dv = [v for v in spec.variants if v.default and not v.disabled]
    if dv:
        v = dv[0]
        lines.append("    let make_default = |s: &str| -> %s { %s };" % (ty, v.ctor(spec.path(), ["s.into()"])))
    else:
        lines.append("    let make_default = |_s: &str| -> %s { unreachable!() };" % ty)
    lines.append("    let from_str = |s: &str| <%s as std::str::FromStr>::from_str(s).map_err(%s);" % (ty, err_map))
    lines.append("    let try_from = |s: &str| <%s as std::convert::TryFrom<&str>>::try_from(s).map_err(%s);" % (ty, err_map))
    lines.append("    let expect_err = %s;" % err_expr)
    lines.append("    let apis = vmon::parse::ParseApis { from_str: &from_str, try_from: &try_from, make: &make, "
                 "make_default: &make_default, expect_err: &expect_err, log_drain: %s };" % log_drain)
    lines.append("    vmon::parse::drive_parse(m, &%s, &apis);" % spec_static)
    return "\n".join(lines)


def _pspec(spec, name, extra):
    from .spec import pspec_rust
    return pspec_rust(spec, name, extra)


def recased_extras(spec, limit=40):
    """I6/I7 inputs: raw identifiers and their re-casings under every style; prefix+name."""
    out = []
    seen = set()
    for v in spec.variants:
        cands = [v.ident] + [model.convert_case(v.ident, st) for st in STYLE_STRINGS]
        for c in cands:
            if c not in seen:
                seen.add(c)
                out.append(("recased-ident", c))
        if spec.prefix:
            for s in model.spellings(v, spec.serialize_all):
                out.append(("prefixed", spec.prefix + s))
    return out[: limit * max(1, len(spec.variants))]
