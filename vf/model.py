"""Reference models (DESIGN §4).  Computed from the abstract EnumSpec only, never from strum."""

STYLES = [
    # accepted style string -> canonical conversion
    ("camelCase", "camel"),
    ("PascalCase", "pascal"),
    ("camel_case", "pascal"),
    ("kebab-case", "kebab"),
    ("kebab_case", "kebab"),
    ("snake_case", "snake"),
    ("snek_case", "snake"),
    ("SCREAMING_SNAKE_CASE", "shouty"),
    ("shouty_snake_case", "shouty"),
    ("shouty_snek_case", "shouty"),
    ("SCREAMING-KEBAB-CASE", "skebab"),
    ("lowercase", "lower"),
    ("UPPERCASE", "upper"),
    ("title_case", "title"),
    ("mixed_case", "mixed"),
    ("Train-Case", "train"),
]
STYLE_MAP = dict(STYLES)
STYLE_STRINGS = [s for s, _ in STYLES]


def _is_lower(c):
    return c.islower()


def _is_upper(c):
    return c.isupper()


def split_words(ident):
    """Word segmentation: split at non-alphanumerics; at lower->Upper; and before the last capital
    of an acronym that is followed by lower case.  Digits never start a word and inherit the case
    class of the preceding letter."""
    words = []
    cur = ""
    pieces = []
    for ch in ident:
        if ch.isalnum():
            cur += ch
        else:
            pieces.append(cur)
            cur = ""
    pieces.append(cur)
    for word in pieces:
        if not word:
            continue
        init = 0
        mode = "b"  # boundary / l / u
        n = len(word)
        i = 0
        while i < n:
            c = word[i]
            if i + 1 < n:
                nxt = word[i + 1]
                if _is_lower(c):
                    next_mode = "l"
                elif _is_upper(c):
                    next_mode = "u"
                else:
                    next_mode = mode
                if next_mode == "l" and _is_upper(nxt):
                    words.append(word[init:i + 1])
                    init = i + 1
                    mode = "b"
                elif mode == "u" and _is_upper(c) and _is_lower(nxt):
                    if word[init:i]:
                        words.append(word[init:i])
                    else:
                        pass
                    init = i
                    mode = "b"
                else:
                    mode = next_mode
            else:
                words.append(word[init:])
            i += 1
    return [w for w in words if w != ""]


def _cap(w):
    return w[:1].upper() + w[1:].lower()


def convert_case(ident, style):
    """style: None or one of the accepted style strings."""
    if style is None:
        return ident
    kind = STYLE_MAP[style]
    if kind == "lower":
        return ident.lower()
    if kind == "upper":
        return ident.upper()
    ws = split_words(ident)
    if kind == "pascal":
        return "".join(_cap(w) for w in ws)
    if kind == "camel":
        p = "".join(_cap(w) for w in ws)
        return p[:1].lower() + p[1:]
    if kind == "mixed":
        return "".join(w.lower() if i == 0 else _cap(w) for i, w in enumerate(ws))
    if kind == "snake":
        return "_".join(w.lower() for w in ws)
    if kind == "kebab":
        return "-".join(w.lower() for w in ws)
    if kind == "shouty":
        return "_".join(w.upper() for w in ws)
    if kind == "skebab":
        return "-".join(w.lower() for w in ws).upper()
    if kind == "title":
        return " ".join(_cap(w) for w in ws)
    if kind == "train":
        return "-".join(_cap(w) for w in ws)
    raise ValueError(kind)


def snakify(ident):
    s = convert_case(ident, "snake_case")
    out = []
    for pos, c in enumerate(s):
        if c.isdigit() and c.isascii() and pos != 0 and not (s[pos - 1].isdigit() and s[pos - 1].isascii()):
            out.append("_")
        out.append(c)
    return "".join(out)


def spellings(v, style):
    out = list(v.serialize)
    if v.to_string is not None:
        out.append(v.to_string)
    if not out:
        out = [convert_case(v.ident, style)]
    return out


def canonical(v, style, prefix):
    if v.to_string is not None:
        name = v.to_string
    elif v.serialize:
        # longest by UTF-8 byte length; corpora keep the maximum unique
        name = max(v.serialize, key=lambda s: len(s.encode("utf-8")))
        # python's max returns the first maximal element; Rust's max_by_key returns the last.
        # Corpora guarantee a unique maximum, checked here.
        lens = [len(s.encode("utf-8")) for s in v.serialize]
        assert lens.count(max(lens)) == 1 and unambiguous_longest(v.serialize), "ambiguous longest serialize in corpus"
    else:
        name = convert_case(v.ident, style)
    return (prefix or "") + name


def unambiguous_longest(lits):
    """The property says 'longest' without a unit: corpora only use literal sets whose longest element is
    the same, and unique, by UTF-8 bytes and by chars."""
    if len(lits) < 2:
        return True
    b = [len(s.encode("utf-8")) for s in lits]
    c = [len(s) for s in lits]
    return b.count(max(b)) == 1 and c.count(max(c)) == 1 and b.index(max(b)) == c.index(max(c))


def effective_ci(v, enum_ci):
    return enum_ci if v.aci is None else v.aci


def fold_ascii(s):
    return "".join(chr(ord(c) + 32) if "A" <= c <= "Z" else c for c in s)


def parse(spec, s):
    """Reference parser.  Returns ('variant', idx) | ('default', idx) | ('err', None)."""
    for i, v in enumerate(spec.variants):
        if v.disabled or v.default:
            continue
        ci = effective_ci(v, spec.aci)
        for sp in spellings(v, spec.serialize_all):
            if sp == s or (ci and fold_ascii(sp) == fold_ascii(s)):
                return ("variant", i)
    for i, v in enumerate(spec.variants):
        if v.default and not v.disabled:
            return ("default", i)
    return ("err", None)


def claimers(spec, s):
    n = 0
    for v in spec.variants:
        if v.disabled or v.default:
            continue
        ci = effective_ci(v, spec.aci)
        if any(sp == s or (ci and fold_ascii(sp) == fold_ascii(s)) for sp in spellings(v, spec.serialize_all)):
            n += 1
    return n


def overlaps(spec):
    """True when two (enabled, non-default) variants could both claim some input — outside C01's domain."""
    claimed = []
    for i, v in enumerate(spec.variants):
        if v.disabled or v.default:
            continue
        ci = effective_ci(v, spec.aci)
        for sp in spellings(v, spec.serialize_all):
            claimed.append((i, sp, ci))
    for a in range(len(claimed)):
        for b in range(a + 1, len(claimed)):
            ia, sa, ca = claimed[a]
            ib, sb, cb = claimed[b]
            if ia == ib:
                continue
            if sa == sb:
                return True
            if (ca or cb) and fold_ascii(sa) == fold_ascii(sb):
                return True
    return False


def discriminants(spec):
    """rustc's rule over all declared variants.  v.disc is None or a (expr_text, value) pair."""
    out = []
    prev = None
    for v in spec.variants:
        if v.disc is not None:
            val = v.disc[1]
        else:
            val = 0 if prev is None else prev + 1
        out.append(val)
        prev = val
    return out


def doc_text(docs):
    """docs: list of raw doc attribute string values (as rustc sees them)."""
    if not docs:
        return None
    stripped = [d[1:] if d.startswith(" ") else d for d in docs]
    if len(stripped) == 1:
        return stripped[0]
    return "".join(d + "\n" for d in stripped)
