#!/bin/bash
# usage: SEEDED_REPO=<checkout> selftest/which_checks.sh <patch.diff> [ids...]  -> prints, per property, whether its quick check fires on the patched tree
patch="$1"; shift
ids=${@:-C01 C02 C03 C04 C05 C06 C07 C08 C09 C10 C11 C12 C13 C14 C15 C16 C17 C18 C19 C20}
cd "$(dirname "$(readlink -f "$0")")/.."
fired=""
for id in $ids; do
  out=$(selftest/with_patch.sh "$patch" ./check $id 2>&1); rc=$?
  if [ $rc -eq 1 ]; then fired="$fired $id"; fi
  if [ $rc -ge 2 ]; then fired="$fired $id(rc=$rc)"; fi
done
echo "fired:$fired"
