#!/usr/bin/env python3
"""Applies every seeded change (seeded/<id>/<m>/patch.diff and seeded/reverted-fixes/F*.diff) to /repo in turn,
runs the owning property's check (quick tier unless --tier is given), restores /repo, and writes selftest/RESULTS.md.
usage: selftest/run_seeded.py [--tier quick] [--only C05,C06] [--rounds z,w,v,F] [--out FILE]   (SEEDED_REPO=<checkout> keeps /repo untouched;
several instances on different checkouts can share the work, tools/merge_results.py joins their tables)"""
import glob, json, os, re, subprocess, sys, time
HERE = os.path.dirname(os.path.dirname(os.path.abspath(__file__)))
os.chdir(HERE)
args = sys.argv[1:]
tier = args[args.index("--tier") + 1] if "--tier" in args else "quick"
only = set(args[args.index("--only") + 1].split(",")) if "--only" in args else None
rounds = set(args[args.index("--rounds") + 1].split(",")) if "--rounds" in args else None   # first letters of the change names, e.g. z,w,v,F
outfile = args[args.index("--out") + 1] if "--out" in args else "selftest/RESULTS.md"
FIX_PROP = {"F1": "C05", "F2": "C06", "F3": "C16", "F4": "C19", "F5": "C20", "F6": "C20", "F7": "C17", "F8": "C20", "F9": "C09"}
rows = []
jobs = []
for p in sorted(glob.glob("seeded/C*/m*/patch.diff")) + sorted(glob.glob("seeded/C*/r*/patch.diff")) + sorted(glob.glob("seeded/C*/s*/patch.diff")) + sorted(glob.glob("seeded/C*/t*/patch.diff")) + sorted(glob.glob("seeded/C*/x*/patch.diff")) + sorted(glob.glob("seeded/C*/y*/patch.diff")) + sorted(glob.glob("seeded/C*/z*/patch.diff")) + sorted(glob.glob("seeded/C*/w*/patch.diff")) + sorted(glob.glob("seeded/C*/v*/patch.diff")) + sorted(glob.glob("seeded/C*/u*/patch.diff")) + sorted(glob.glob("seeded/C*/q*/patch.diff")):
    pid = p.split("/")[1]
    jobs.append((pid, p.split("/")[2], p, json.load(open(os.path.dirname(p) + "/meta.json")).get("summary", "")))
for p in sorted(glob.glob("seeded/reverted-fixes/F*.diff")):
    f = os.path.basename(p)[:-5]
    jobs.append((FIX_PROP[f], f + " (fix reverted)", p, "original defect restored"))
for pid, name, patch, summ in jobs:
    if only and pid not in only:
        continue
    if rounds and name[0] not in rounds:
        continue
    t0 = time.time()
    r = subprocess.run(["selftest/with_patch.sh", patch, "./check", pid, "--tier", tier], stdout=subprocess.PIPE, stderr=subprocess.PIPE, text=True)
    viol = [l for l in r.stdout.splitlines() if l.startswith("VIOLATION")]
    what = [l.strip() for l in r.stdout.splitlines() if l.strip().startswith("what:")]
    verdict = {0: "MISSED (exit 0)", 1: "detected", 2: "INCONCLUSIVE"}.get(r.returncode, "rc=%d" % r.returncode)
    rows.append((pid, name, verdict, len(viol), (what[0][6:200] if what else ""), (summ or "")[:160], time.time() - t0))
    print(pid, name, verdict, "%.0fs" % (time.time() - t0), flush=True)
st = subprocess.run(["git", "-C", os.environ.get("SEEDED_REPO", "/repo"), "status", "--porcelain", "--untracked-files=no"], stdout=subprocess.PIPE, text=True).stdout
assert st.strip() == "", "/repo not clean after run: " + st
with open(outfile, "w") as fh:
    fh.write("# Seeded changes vs checks (tier=%s, VERIF_SEED=%s)\n\nEach row: the change was applied to a checkout of /repo (`git apply`), the owning property's check was run, the checkout was restored.\n\n" % (tier, os.environ.get("VERIF_SEED", "0")))
    fh.write("| property | change | verdict | violations printed | first witness | what was changed |\n|---|---|---|---|---|---|\n")
    for pid, name, verdict, nv, what, summ, dt in rows:
        fh.write("| %s | %s | %s | %d | %s | %s |\n" % (pid, name, verdict, nv, what.replace("|", "\\|"), summ.replace("|", "\\|").replace("\n", " ")))
    det = sum(1 for r in rows if r[2] == "detected")
    fh.write("\n%d of %d detected.\n" % (det, len(rows)))
print("detected %d / %d" % (sum(1 for r in rows if r[2] == "detected"), len(rows)))
