#!/usr/bin/env python3
"""Imports round-10 sub-agent mutants /tmp/mut-U<k>/u<n> (confirmed by /var/tmp/mutverify/U<k>-u<n>.result) into seeded/<id>/u<k><n>."""
import glob, json, os, shutil
import sys
TAG = sys.argv[1] if len(sys.argv) > 1 else "U"   # U = round 10 (stored as uNK), Q = round 11 (stored as qNK)
n = 0
for f in sorted(glob.glob('/var/tmp/mutverify/%s*-u*.result' % TAG)):
    p = open(f).read().split()
    if len(p) < 6:
        print("NOT CONFIRMED, skipped:", f, p); continue
    pid, name, r = p[0], p[1], " ".join(p[2:])
    k, m = name[1], name[-1]
    src = "/tmp/mut-U%s/u%s" % (k, m)
    if "suite_exit=0" not in r or "suite_failed_results=0" not in r or "demo_without_patch_exit=0" not in r or "demo_with_patch_exit=0" in r:
        print("NOT CONFIRMED, skipped:", name, r); continue
    dst = "seeded/%s/%s%s%s" % (pid, TAG.lower(), k, m)
    os.makedirs(dst, exist_ok=True)
    shutil.copy(src + "/patch.diff", dst + "/patch.diff")
    shutil.copy(src + "/demo.rs", dst + "/demo.rs")
    try:
        meta = json.load(open(src + "/meta.json"))
    except Exception as e:
        meta = {"summary": "(agent meta.json unreadable: %s)" % e}
    out = {"property": pid, "summary": meta.get("summary"), "needs": meta.get("needs"), "files": meta.get("files"),
           "author": "independent sub-agent (round %s, one lens per agent" % {"U": 10, "Q": 11}[TAG] + ") given the 20 property texts and a scratch worktree of /repo @ c4fffcc; nothing from /verif",
           "agent_verified": meta.get("verified"),
           "confirmed_by_me": {"how": "scratch worktree /tmp/wt-U%s: git apply patch.diff; `cargo test --workspace --offline` (whole baseline suite); demo as strum_tests/tests/demo.rs run with the patch and after `git apply -R`" % k,
                               "result": r}}
    json.dump(out, open(dst + "/meta.json", "w"), indent=1)
    n += 1
    print("imported", dst)
print("imported", n)
