#!/usr/bin/env python3
"""Imports sub-agent mutants /tmp/mut-CXX/<prefix>{1,2,3} (already confirmed by /var/tmp/mutverify results) into seeded/."""
import glob, json, os, shutil, sys
prefix = sys.argv[1]
ids = sys.argv[2:] or ["C%02d" % i for i in range(1, 21)]
res = {}
for f in glob.glob('/var/tmp/mutverify/*.result'):
    for line in open(f):
        p = line.split()
        if len(p) >= 6:
            res[(p[0], p[1])] = " ".join(p[2:])
n = 0
for pid in ids:
    for k in (1, 2, 3):
        src = "/tmp/mut-%s/%s%d" % (pid, prefix, k)
        if not os.path.exists(src + "/patch.diff"):
            continue
        r = res.get((pid, "%s%d" % (prefix, k)))
        if not r or "suite_exit=0" not in r or "demo_without_patch_exit=0" not in r or "demo_with_patch_exit=0" in r:
            print("NOT CONFIRMED, skipped:", pid, prefix, k, r)
            continue
        dst = "seeded/%s/%s%d" % (pid, prefix, k)
        os.makedirs(dst, exist_ok=True)
        shutil.copy(src + "/patch.diff", dst + "/patch.diff")
        if os.path.exists(src + "/demo.rs"):
            shutil.copy(src + "/demo.rs", dst + "/demo.rs")
        if os.path.isdir(src + "/demo"):
            shutil.rmtree(dst + "/demo", ignore_errors=True)
            shutil.copytree(src + "/demo", dst + "/demo", ignore=shutil.ignore_patterns("target"))
        try:
            meta = json.load(open(src + "/meta.json"))
        except Exception as e:
            meta = {"summary": "(agent meta.json unreadable: %s)" % e}
        out = {"property": pid, "summary": meta.get("summary"), "needs": meta.get("needs"), "files": meta.get("files"),
               "author": "independent sub-agent (round %s) given only the property text%s and a scratch worktree of /repo @ e74a44c"
                         % ({"m": "1", "r": "2", "s": "3", "t": "4"}.get(prefix, "?"), " plus one-line summaries of round-1 ideas to avoid" if prefix in ("r", "s", "t") else ""),
               "agent_verified": meta.get("verified"),
               "confirmed_by_me": {"how": "scratch worktree /tmp/wt-%s: git apply patch.diff; `cargo test --workspace --offline` (whole baseline suite); demo run with the patch and after `git apply -R`" % pid,
                                   "result": r}}
        json.dump(out, open(dst + "/meta.json", "w"), indent=1)
        n += 1
print("imported", n)
