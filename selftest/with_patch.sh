#!/bin/bash
# usage: selftest/with_patch.sh <patch.diff> <command...>
# Applies the patch to /repo, runs the command, and always restores /repo afterwards.
set -u
patch="$(readlink -f "$1")"; shift
cd /repo || exit 3
if [ -n "$(git status --porcelain --untracked-files=no)" ]; then echo "/repo not clean" >&2; exit 3; fi
git apply "$patch" || { echo "patch does not apply" >&2; exit 3; }
trap 'git -C /repo checkout -- . ' EXIT
cd /verif
# evidence files describe the unchanged tree only: do not overwrite them from a run on a seeded change
export VERIF_NO_EVIDENCE=1
"$@"
rc=$?
exit $rc
