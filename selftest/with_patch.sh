#!/bin/bash
# usage: selftest/with_patch.sh <patch.diff> <command...>
# Applies the patch to the repository under test, runs the command, and always restores the repository afterwards.
# The repository is /repo unless SEEDED_REPO names another git checkout of it (then VERIF_REPO is exported for the command).
set -u
patch="$(readlink -f "$1")"; shift
verif="$(cd "$(dirname "$(readlink -f "$0")")/.." && pwd)"
repo="${SEEDED_REPO:-/repo}"
cd "$repo" || exit 3
if [ -n "$(git status --porcelain --untracked-files=no)" ]; then echo "$repo not clean" >&2; exit 3; fi
git apply "$patch" || { echo "patch does not apply" >&2; exit 3; }
trap 'git -C "$repo" checkout -- . ' EXIT
cd "$verif"
# evidence files describe the unchanged tree only: do not overwrite them from a run on a seeded change
export VERIF_NO_EVIDENCE=1
if [ "$repo" != "/repo" ]; then export VERIF_REPO="$repo"; fi
"$@"
rc=$?
exit $rc
