//! Format-spec grid: a value must format exactly like a reference value under every spec.
use crate::{hash_of, jobj, jstr, panic_msg, Mon};
use std::fmt::Display;
use std::panic::{catch_unwind, AssertUnwindSafe};

macro_rules! grid_w {
    ($go:ident, $v:ident, $r:ident, $w:ident; $($lit:literal),* $(,)?) => {
        $( $go($lit, $w, None, &|| format!($lit, $v, w = $w), &|| format!($lit, $r, w = $w)); )*
    };
}
macro_rules! grid_wp {
    ($go:ident, $v:ident, $r:ident, $w:ident, $p:ident; $($lit:literal),* $(,)?) => {
        $( $go($lit, $w, Some($p), &|| format!($lit, $v, w = $w, p = $p), &|| format!($lit, $r, w = $w, p = $p)); )*
    };
}

/// Compare `format!(spec, v)` with `format!(spec, reference)` over fill {none,' ','*','é'} x align
/// {none,<,^,>} x width 0..=maxw x precision {none, 0..=maxp}; `flags` adds the +, # and 0 flags.
pub fn fmt_grid<T: Display, R: Display + ?Sized>(m: &mut Mon, class: &str, subject: &str, v: &T, r: &R, maxw: usize, maxp: usize, flags: bool) {
    let mut bad: Option<(String, String, String)> = None;
    let mut n = 0u64;
    {
        let mut go = |lit: &str, w: usize, p: Option<usize>, fv: &dyn Fn() -> String, fr: &dyn Fn() -> String| {
            n += 1;
            if bad.is_some() {
                return;
            }
            let want = fr();
            let got = catch_unwind(AssertUnwindSafe(|| fv()));
            let spec = match p {
                Some(p) => lit.replace("w$", &w.to_string()).replace("p$", &p.to_string()),
                None => lit.replace("w$", &w.to_string()),
            };
            match got {
                Ok(g) => {
                    if g != want {
                        bad = Some((spec, want, g));
                    }
                }
                Err(e) => bad = Some((spec, want, format!("panic: {}", panic_msg(&e)))),
            }
        };
        let z = 0usize;
        go("{}", 0, None, &|| format!("{}", v), &|| format!("{}", r));
        for w in 0..=maxw {
            grid_w!(go, v, r, w; "{:w$}", "{:<w$}", "{:^w$}", "{:>w$}", "{: <w$}", "{: ^w$}", "{: >w$}", "{:*<w$}", "{:*^w$}", "{:*>w$}", "{:é<w$}", "{:é^w$}", "{:é>w$}");
            if flags {
                grid_w!(go, v, r, w; "{:+w$}", "{:0w$}", "{:+0w$}", "{:#w$}", "{:<0w$}", "{:*>+w$}", "{:#0w$}");
            }
            for p in 0..=maxp {
                grid_wp!(go, v, r, w, p; "{:w$.p$}", "{:<w$.p$}", "{:^w$.p$}", "{:>w$.p$}", "{:*<w$.p$}", "{:*^w$.p$}", "{:*>w$.p$}", "{:é^w$.p$}", "{: >w$.p$}");
                if flags {
                    grid_wp!(go, v, r, w, p; "{:+w$.p$}", "{:0w$.p$}", "{:+0w$.p$}");
                }
            }
        }
        let _ = z;
    }
    m.count_n(&format!("{}/format-specs", class), n);
    // every (value, spec) pair is an oracle-checked observation
    m.event_bulk(class, hash_of(&(subject, "grid", maxw, maxp, flags)), n);
    if let Some((spec, want, got)) = bad {
        m.viol(&format!("{}:fmt-spec", class), jobj(&[("api", jstr(&format!("format!(\"{}\", v)", spec))), ("subject", jstr(subject)), ("expected", jstr(&want)), ("observed", jstr(&got))]));
    } else if m.want_sample() {
        m.sample(jobj(&[("api", jstr("format!(spec, v) over the spec grid")), ("subject", jstr(subject)), ("specs", n.to_string()), ("example", jstr(&format!("{:*^9.3}", v)))]));
    }
}
