//! Reference parser (executable model of C01/C12) and the lock-step parse driver.
use crate::inputs::{gen_inputs, Limits, PSpec, CLASSES};
use crate::{hash_of, jobj, jstr, Mon};
use std::fmt::Debug;

#[derive(Debug, Clone, Copy, PartialEq, Eq)]
pub enum Expect {
    Variant(usize),
    Default(usize),
    Err,
}

/// ASCII-only fold comparison, written by hand (does not call eq_ignore_ascii_case).
pub fn eq_fold_ascii(a: &str, b: &str) -> bool {
    let (a, b) = (a.as_bytes(), b.as_bytes());
    if a.len() != b.len() {
        return false;
    }
    for i in 0..a.len() {
        let (x, y) = (a[i], b[i]);
        if x == y {
            continue;
        }
        let lx = if x >= b'A' && x <= b'Z' { x + 32 } else { x };
        let ly = if y >= b'A' && y <= b'Z' { y + 32 } else { y };
        if lx != ly {
            return false;
        }
    }
    true
}

/// number of enabled, non-default variants that claim s
pub fn claimers(spec: &PSpec, s: &str) -> usize {
    spec.variants
        .iter()
        .filter(|v| v.enabled && !v.is_default && v.spellings.iter().any(|sp| *sp == s || (v.ci && eq_fold_ascii(sp, s))))
        .count()
}

pub fn ref_parse(spec: &PSpec, s: &str) -> Expect {
    for (i, v) in spec.variants.iter().enumerate() {
        if !v.enabled || v.is_default {
            continue;
        }
        for sp in v.spellings {
            if *sp == s || (v.ci && eq_fold_ascii(sp, s)) {
                return Expect::Variant(i);
            }
        }
    }
    for (i, v) in spec.variants.iter().enumerate() {
        if v.enabled && v.is_default {
            return Expect::Default(i);
        }
    }
    Expect::Err
}

pub struct ParseApis<'a, E> {
    pub from_str: &'a dyn Fn(&str) -> Result<E, String>,
    pub try_from: &'a dyn Fn(&str) -> Result<E, String>,
    /// expected value of variant i with defaulted payload (built by the generator, not by strum)
    pub make: &'a dyn Fn(usize) -> E,
    /// expected catch-all value capturing s
    pub make_default: &'a dyn Fn(&str) -> E,
    /// Debug rendering of the expected error for a rejected input
    pub expect_err: &'a dyn Fn(&str) -> String,
    /// C18: drains the log of arguments the user's error function was called with
    pub log_drain: Option<&'a dyn Fn() -> Vec<String>>,
}

fn describe(spec: &PSpec, e: Expect) -> String {
    match e {
        Expect::Variant(i) => format!("variant {}", spec.variants[i].ident),
        Expect::Default(i) => format!("default {}", spec.variants[i].ident),
        Expect::Err => "Err".to_string(),
    }
}

/// Drive both parse APIs over the generated input set and compare every result with the model.
pub fn drive_parse<E: Debug + PartialEq>(m: &mut Mon, spec: &'static PSpec, apis: &ParseApis<E>) {
    let mut rng = m.rng("inputs");
    let mut lim = if m.tier_thorough { Limits::thorough() } else { Limits::quick() };
    for a in m.args.iter() {
        if let Some(v) = a.strip_prefix("flipk=") {
            if let Ok(k) = v.parse() {
                lim.flip_all_k = k;
            }
        }
        if let Some(v) = a.strip_prefix("random=") {
            if let Ok(k) = v.parse() {
                lim.random = k;
            }
        }
    }
    let inputs = gen_inputs(spec, &mut rng, &lim);
    for (s, class) in &inputs {
        check_one(m, spec, apis, s, CLASSES[*class]);
    }
}

pub fn check_one<E: Debug + PartialEq>(m: &mut Mon, spec: &'static PSpec, apis: &ParseApis<E>, s: &str, class: &str) {
    if spec.overlap && claimers(spec, s) > 1 {
        // which of several claiming variants wins is not pinned by the property: not judged
        m.count("overlap/ambiguous-input-not-judged");
        return;
    }
    let exp = ref_parse(spec, s);
    let verbatim = matches!(exp, Expect::Variant(i) if spec.variants[i].spellings.iter().any(|x| *x == s));
    let key = if verbatim { None } else { Some(hash_of(&s)) };
    for (api, f) in [("from_str", apis.from_str), ("try_from", apis.try_from)] {
        if let Some(d) = apis.log_drain {
            let _ = d();
        }
        let obs = match std::panic::catch_unwind(std::panic::AssertUnwindSafe(|| f(s))) {
            Ok(o) => o,
            Err(e) => {
                m.event_fast(key);
                m.viol(
                    &format!("parse:{}:panic:{}", api, class),
                    jobj(&[("api", jstr(api)), ("input", jstr(s)), ("class", jstr(class)), ("expected", jstr(&describe(spec, exp))), ("observed", jstr(&format!("panic: {}", crate::panic_msg(&e))))]),
                );
                continue;
            }
        };
        m.event_fast(key);
        let outcome = match (&exp, &obs) {
            (Expect::Variant(_), Ok(_)) => "accept",
            (Expect::Default(_), Ok(_)) => "capture",
            (Expect::Err, Err(_)) => "reject",
            _ => "mismatch",
        };
        m.count(&format!("{}/{}", class, outcome));
        let mut bad: Option<(&str, String)> = None;
        match (exp, &obs) {
            (Expect::Variant(i), Ok(v)) => {
                let want = (apis.make)(i);
                if *v != want {
                    // wrong variant or wrong payload?
                    let od = format!("{:?}", v);
                    let wd = format!("{:?}", want);
                    let same_head = od.split(|c: char| !c.is_alphanumeric() && c != '_').next()
                        == wd.split(|c: char| !c.is_alphanumeric() && c != '_').next();
                    bad = Some((if same_head { "wrong-payload" } else { "wrong-variant" }, wd));
                }
            }
            (Expect::Default(_), Ok(v)) => {
                let want = (apis.make_default)(s);
                if *v != want {
                    bad = Some(("default-capture", format!("{:?}", want)));
                }
            }
            (Expect::Err, Err(e)) => {
                let want = (apis.expect_err)(s);
                if *e != want {
                    bad = Some(("err-value", want));
                }
            }
            (Expect::Err, Ok(_)) => bad = Some(("accepted-undeclared", "Err".to_string())),
            (Expect::Variant(_), Err(_)) => bad = Some(("rejected-declared", describe(spec, exp))),
            (Expect::Default(_), Err(_)) => bad = Some(("default-not-taken", describe(spec, exp))),
        }
        if bad.is_none() {
            if let Some(d) = apis.log_drain {
                let log = d();
                let want: Vec<String> = if exp == Expect::Err { vec![s.to_string()] } else { vec![] };
                if log != want {
                    bad = Some(("errfn-calls", format!("error fn called with {:?}", want)));
                    let observed = format!("error fn called with {:?}", log);
                    m.viol(
                        &format!("parse:{}:errfn-calls:{}", api, class),
                        jobj(&[("api", jstr(api)), ("input", jstr(s)), ("class", jstr(class)), ("expected", jstr(&bad.as_ref().unwrap().1)), ("observed", jstr(&observed))]),
                    );
                    continue;
                }
            }
        }
        if let Some((kind, want)) = bad {
            let observed = match &obs {
                Ok(v) => format!("Ok({:?})", v),
                Err(e) => format!("Err({})", e),
            };
            m.viol(
                &format!("parse:{}:{}:{}", api, kind, class),
                jobj(&[("api", jstr(api)), ("input", jstr(s)), ("class", jstr(class)), ("expected", jstr(&want)), ("observed", jstr(&observed)), ("model", jstr(&describe(spec, exp)))]),
            );
        } else if m.want_sample() {
            let observed = match &obs {
                Ok(v) => format!("Ok({:?})", v),
                Err(e) => format!("Err({})", e),
            };
            m.sample(jobj(&[("api", jstr(api)), ("input", jstr(s)), ("class", jstr(class)), ("model", jstr(&describe(spec, exp))), ("observed", jstr(&observed))]));
        }
    }
}

/// Only the declared spellings and the python-provided probes (used where the hostile input
/// generator would be redundant, e.g. C07's exhaustive identifier corpus).
pub fn drive_parse_listed<E: Debug + PartialEq>(m: &mut Mon, spec: &'static PSpec, apis: &ParseApis<E>) {
    for v in spec.variants {
        for sp in v.spellings {
            check_one(m, spec, apis, sp, "I1-spelling");
        }
    }
    for (class, s) in spec.extra {
        check_one(m, spec, apis, s, class);
    }
    check_one(m, spec, apis, "", "I8-empty");
}

/// C11: like drive_parse, plus for every input captured by the default variant the printed value
/// must be the input again, and the caller's format spec must reach the inner value.
pub fn drive_capture<E: Debug + PartialEq + std::fmt::Display>(m: &mut Mon, spec: &'static PSpec, apis: &ParseApis<E>) {
    let mut rng = m.rng("inputs");
    let lim = if m.tier_thorough { Limits::thorough() } else { Limits::quick() };
    let inputs = gen_inputs(spec, &mut rng, &lim);
    let mut k = 0usize;
    for (s, class) in &inputs {
        check_one(m, spec, apis, s, CLASSES[*class]);
        if let Expect::Default(_) = ref_parse(spec, s) {
            if let Ok(Ok(v)) = std::panic::catch_unwind(std::panic::AssertUnwindSafe(|| (apis.from_str)(s))) {
                k += 1;
                let printed = std::panic::catch_unwind(std::panic::AssertUnwindSafe(|| v.to_string()));
                m.event_fast(Some(hash_of(&("roundtrip", s))));
                m.count("capture/print-roundtrip");
                match printed {
                    Ok(p) => {
                        if p != *s {
                            m.viol(&format!("capture:roundtrip:{}", CLASSES[*class]), jobj(&[("api", jstr("from_str(s)?.to_string()")), ("input", jstr(s)), ("expected", jstr(s)), ("observed", jstr(&p))]));
                        }
                    }
                    Err(e) => m.viol("capture:roundtrip:panic", jobj(&[("api", jstr("from_str(s)?.to_string()")), ("input", jstr(s)), ("expected", jstr(s)), ("observed", jstr(&format!("panic: {}", crate::panic_msg(&e))))])),
                }
                if k % 40 == 1 && s.len() < 64 {
                    crate::fmt::fmt_grid(m, "capture-fmt", &format!("{:?}", v), &v, s.as_str(), 12, 6, true);
                }
            }
        }
    }
}
