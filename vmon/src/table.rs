//! Lock-step monitor for EnumTable-like maps: exhaustive write/read histories against an
//! array model.  Generic over the table type through Index/IndexMut.
use crate::{hash_of, jobj, jstr, panic_msg, Mon};
use std::fmt::Debug;
use std::ops::{Index, IndexMut};
use std::panic::{catch_unwind, AssertUnwindSafe};

/// Compare the whole table with the model through Index.
pub fn compare<Tab, K>(m: &mut Mon, t: &Tab, model: &[u64], key: &dyn Fn(usize) -> K, what: &str, hist: &str) -> bool
where
    Tab: Index<K, Output = u64>,
{
    for (i, want) in model.iter().enumerate() {
        let got = catch_unwind(AssertUnwindSafe(|| t[key(i)]));
        m.event_fast(Some(hash_of(&(what, hist, i))));
        match got {
            Ok(g) => {
                if g != *want {
                    m.viol(
                        &format!("table:{}", what),
                        jobj(&[("history", jstr(hist)), ("slot", i.to_string()), ("expected", want.to_string()), ("observed", g.to_string())]),
                    );
                    return false;
                }
            }
            Err(e) => {
                m.viol(
                    &format!("table:{}:panic", what),
                    jobj(&[("history", jstr(hist)), ("slot", i.to_string()), ("expected", want.to_string()), ("observed", jstr(&format!("panic: {}", panic_msg(&e))))]),
                );
                return false;
            }
        }
    }
    true
}

/// All write sequences of length <= depth over n keys x `vals` values; after every write the
/// whole table is compared with the model (a write changes exactly one slot).
pub fn explore_writes<Tab, K>(m: &mut Mon, init: &Tab, init_model: &[u64], key: &dyn Fn(usize) -> K, depth: usize, vals: &[u64])
where
    Tab: Index<K, Output = u64> + IndexMut<K> + Clone + PartialEq + Debug,
{
    let n = init_model.len();
    let mut hist: Vec<(usize, u64)> = Vec::new();
    fn rec<Tab, K>(m: &mut Mon, t: &Tab, model: &mut Vec<u64>, key: &dyn Fn(usize) -> K, depth: usize, vals: &[u64], n: usize, hist: &mut Vec<(usize, u64)>, hcount: &mut u64) -> bool
    where
        Tab: Index<K, Output = u64> + IndexMut<K> + Clone + PartialEq + Debug,
    {
        if depth == 0 {
            *hcount += 1;
            return true;
        }
        for k in 0..n {
            for (vi, &v) in vals.iter().enumerate() {
                let mut t2 = t.clone();
                let unique = v + 1000 * (hist.len() as u64 + 1) + 10 * k as u64 + vi as u64 * 100_000;
                let old = model[k];
                model[k] = unique;
                hist.push((k, unique));
                let r = catch_unwind(AssertUnwindSafe(|| {
                    t2[key(k)] = unique;
                }));
                let hs = format!("{:?}", hist);
                let ok = match r {
                    Ok(()) => compare(m, &t2, model, key, "write-read", &hs),
                    Err(e) => {
                        m.viol("table:write:panic", jobj(&[("history", jstr(&hs)), ("observed", jstr(&panic_msg(&e)))]));
                        false
                    }
                };
                // the table we branched from must be untouched (clone independence)
                if ok {
                    let mut parent_model = model.clone();
                    parent_model[k] = old;
                    if !compare(m, t, &parent_model, key, "clone-independence", &hs) {
                        model[k] = old;
                        hist.pop();
                        return false;
                    }
                    if !rec(m, &t2, model, key, depth - 1, vals, n, hist, hcount) {
                        model[k] = old;
                        hist.pop();
                        return false;
                    }
                }
                model[k] = old;
                hist.pop();
                if !ok {
                    return false;
                }
            }
        }
        true
    }
    let mut model = init_model.to_vec();
    let mut hcount = 0u64;
    if compare(m, init, &model, key, "initial", "[]") {
        rec(m, init, &mut model, key, depth, vals, n, &mut hist, &mut hcount);
    }
    m.count_n("table/histories", hcount);
}

/// Long seeded random walk of writes and reads.
pub fn random_walk<Tab, K>(m: &mut Mon, init: &Tab, init_model: &[u64], key: &dyn Fn(usize) -> K, steps: usize)
where
    Tab: Index<K, Output = u64> + IndexMut<K> + Clone + PartialEq + Debug,
{
    let mut rng = m.rng("table-walk");
    let n = init_model.len();
    let mut t = init.clone();
    let mut model = init_model.to_vec();
    let mut hist: Vec<(usize, u64)> = Vec::new();
    for s in 0..steps {
        let k = rng.below(n);
        let v = 1_000_000 + s as u64;
        hist.push((k, v));
        t[key(k)] = v;
        model[k] = v;
        if s % 7 == 0 || s + 1 == steps {
            let hs = format!("walk seed-derived, {} writes, last {:?}", hist.len(), &hist[hist.len().saturating_sub(6)..]);
            if !compare(m, &t, &model, key, "walk", &hs) {
                return;
            }
        } else {
            let j = rng.below(n);
            let got = t[key(j)];
            m.event_fast(None);
            if got != model[j] {
                m.viol("table:walk", jobj(&[("history", jstr(&format!("{:?}", &hist[hist.len().saturating_sub(8)..]))), ("slot", j.to_string()), ("expected", model[j].to_string()), ("observed", got.to_string())]));
                return;
            }
        }
    }
    m.count_n("table/walk_steps", steps as u64);
}
