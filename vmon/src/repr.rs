//! Monitor for from_repr: every candidate discriminant value against the model table.
use crate::{hash_of, jobj, jstr, panic_msg, Mon};
use std::fmt::Debug;
use std::panic::{catch_unwind, AssertUnwindSafe};

/// table: (discriminant, variant index, enabled) for ALL declared variants.
pub fn check<E: Debug + PartialEq>(
    m: &mut Mon,
    from_repr: &dyn Fn(i128) -> Option<Option<E>>,
    make: &dyn Fn(usize) -> E,
    table: &[(i128, usize, bool)],
    min: i128,
    max: i128,
    truth: &[(usize, i128)],
    nontrivial: bool,
    random: usize,
) {
    // ground truth from rustc (`v as R` / tag read) vs the python model of rustc's numbering rule
    for (idx, t) in truth {
        m.event("repr-truth", None);
        let modeled = table.iter().find(|e| e.1 == *idx).map(|e| e.0);
        if modeled != Some(*t) {
            m.viol("repr:oracle-disagreement", jobj(&[("subject", jstr(&format!("variant #{}", idx))), ("expected", jstr(&format!("{:?} (model)", modeled))), ("observed", jstr(&format!("{} (rustc)", t)))]));
            return;
        }
    }
    let mut cands: Vec<i128> = Vec::new();
    let exhaustive = max - min <= 65535;
    if exhaustive {
        let mut d = min;
        while d <= max {
            cands.push(d);
            d += 1;
        }
    } else {
        for (d, _, _) in table {
            for k in -2..=2 {
                cands.push(d + k);
            }
        }
        for base in [0i128, min, max, 255, 256, 65535, 65536, 127, 128, -128, -129, 1 << 31, (1 << 31) - 1, 1 << 32, -(1 << 31)] {
            for k in -1..=1 {
                cands.push(base + k);
            }
        }
        let mut rng = m.rng("repr");
        let span = (max - min) as u128;
        for i in 0..random {
            let x = if i % 2 == 0 {
                // small window around the declared discriminants
                let (d, _, _) = table.get(rng.below(table.len().max(1))).cloned().unwrap_or((0, 0, false));
                d + (rng.below(2001) as i128) - 1000
            } else {
                let hi = rng.next() as u128;
                let lo = rng.next() as u128;
                min + (((hi << 64) | lo) % (span + 1)) as i128
            };
            cands.push(x);
        }
        cands.retain(|d| *d >= min && *d <= max);
        cands.sort();
        cands.dedup();
    }
    m.count_n(if exhaustive { "repr/exhaustive-enums" } else { "repr/sampled-enums" }, 1);
    for d in cands {
        let want: Option<usize> = table.iter().find(|e| e.0 == d && e.2).map(|e| e.1);
        let declared = table.iter().any(|e| e.0 == d);
        let class = if want.is_some() { "repr/some" } else if declared { "repr/none-disabled" } else { "repr/none" };
        let got = catch_unwind(AssertUnwindSafe(|| from_repr(d)));
        m.event(class, if nontrivial { Some(hash_of(&d)) } else { None });
        match got {
            Ok(Some(g)) => {
                let want_e = want.map(|i| make(i));
                if g != want_e {
                    let kind = match (&g, &want_e) {
                        (Some(_), None) => "some-for-none",
                        (None, Some(_)) => "none-for-some",
                        _ => "wrong-variant",
                    };
                    m.viol(&format!("repr:{}", kind), jobj(&[("api", jstr("from_repr")), ("input", jstr(&d.to_string())), ("expected", jstr(&format!("{:?}", want_e))), ("observed", jstr(&format!("{:?}", g)))]));
                } else if m.want_sample() {
                    m.sample(jobj(&[("api", jstr("from_repr")), ("input", jstr(&d.to_string())), ("observed", jstr(&format!("{:?}", g)))]));
                }
            }
            Ok(None) => {}
            Err(e) => m.viol("repr:panic", jobj(&[("api", jstr("from_repr")), ("input", jstr(&d.to_string())), ("expected", jstr("no panic")), ("observed", jstr(&panic_msg(&e)))])),
        }
    }
}
