//! Hostile input-string generation from a spelling table (classes I1..I12 of DESIGN §5).
use crate::Rng;
use std::collections::HashSet;

pub struct VSpec {
    pub ident: &'static str,
    pub spellings: &'static [&'static str],
    pub ci: bool,
    pub enabled: bool,
    pub is_default: bool,
}

pub struct PSpec {
    pub variants: &'static [VSpec],
    /// inputs computed by the python side: re-cased identifiers, prefix+name, spellings of
    /// other enums, property-specific probes.  (class label, string)
    pub extra: &'static [(&'static str, &'static str)],
    /// the enum deliberately contains variants that can claim the same input; such inputs are not judged
    pub overlap: bool,
}

pub const CLASSES: &[&str] = &[
    "I1-spelling", "I2-caseflip", "I3-edit", "I4-padded", "I5-disabled", "I6-extra", "I8-empty",
    "I9-lookalike", "I10-random", "I11-long",
];

fn is_ascii_letter(b: u8) -> bool {
    (b'a'..=b'z').contains(&b) || (b'A'..=b'Z').contains(&b)
}

pub fn letter_positions(s: &str) -> Vec<usize> {
    s.bytes().enumerate().filter(|(_, b)| is_ascii_letter(*b)).map(|(i, _)| i).collect()
}

pub fn flip_mask(s: &str, pos: &[usize], mask: u64) -> String {
    let mut b = s.as_bytes().to_vec();
    for (j, &p) in pos.iter().enumerate() {
        if j < 64 && (mask >> j) & 1 == 1 {
            b[p] ^= 0x20;
        }
    }
    String::from_utf8(b).unwrap()
}

fn lookalikes(c: char) -> &'static [&'static str] {
    match c {
        'k' | 'K' => &["\u{212A}", "\u{FF4B}", "\u{043A}"],
        's' => &["\u{017F}", "\u{FF53}"],
        'S' => &["\u{017F}", "\u{FF33}"],
        'i' => &["\u{0131}", "\u{0130}", "\u{FF49}", "\u{0456}"],
        'I' => &["\u{0130}", "\u{0131}", "\u{FF29}", "\u{0406}"],
        'a' => &["\u{0430}", "\u{FF41}", "\u{00E0}"],
        'A' => &["\u{0410}", "\u{FF21}", "\u{00C5}", "\u{212B}"],
        'e' => &["\u{0435}", "\u{00E9}"],
        'E' => &["\u{0415}", "\u{00C9}"],
        'o' => &["\u{043E}", "\u{03BF}"],
        'O' => &["\u{041E}", "\u{039F}"],
        'c' => &["\u{0441}"],
        'C' => &["\u{0421}"],
        'm' => &["\u{FF4D}"],
        'M' => &["\u{039C}"],
        'b' => &["\u{FF42}"],
        'B' => &["\u{0412}", "\u{0392}"],
        _ => &[],
    }
}

pub struct Limits {
    pub flip_all_k: usize,
    pub flip_samples: usize,
    pub random: usize,
    pub edits_per_spelling: usize,
}

impl Limits {
    pub fn quick() -> Limits {
        Limits { flip_all_k: 7, flip_samples: 96, random: 48, edits_per_spelling: 40 }
    }
    pub fn thorough() -> Limits {
        Limits { flip_all_k: 12, flip_samples: 2048, random: 400, edits_per_spelling: 400 }
    }
}

/// Generate the input set for one enum.  Returns (input, class index into CLASSES).
pub fn gen_inputs(spec: &PSpec, rng: &mut Rng, lim: &Limits) -> Vec<(String, usize)> {
    let mut out: Vec<(String, usize)> = Vec::new();
    let mut seen: HashSet<String> = HashSet::new();
    let mut push = |out: &mut Vec<(String, usize)>, s: String, c: usize| {
        if seen.insert(s.clone()) {
            out.push((s, c));
        }
    };
    // character pool of this enum
    let mut pool: Vec<char> = Vec::new();
    for v in spec.variants {
        for sp in v.spellings {
            for ch in sp.chars() {
                if !pool.contains(&ch) {
                    pool.push(ch);
                }
            }
        }
        for ch in v.ident.chars() {
            if !pool.contains(&ch) {
                pool.push(ch);
            }
        }
    }
    for ch in ['a', 'Z', '0', '_', '-', ' ', 'é', 'ß', '\u{212A}', '界'] {
        if !pool.contains(&ch) {
            pool.push(ch);
        }
    }

    // I1 / I5: declared spellings (disabled ones are their own class), identifiers of disabled variants
    for v in spec.variants {
        for sp in v.spellings {
            push(&mut out, sp.to_string(), if v.enabled && !v.is_default { 0 } else { 4 });
        }
        if !v.enabled || v.is_default {
            push(&mut out, v.ident.to_string(), 4);
        }
    }
    // I8
    push(&mut out, String::new(), 6);
    // I6: python-provided
    for (_, s) in spec.extra {
        push(&mut out, s.to_string(), 5);
    }
    let all_spellings: Vec<&'static str> =
        spec.variants.iter().flat_map(|v| v.spellings.iter().cloned()).collect();
    // I2: case flips
    for sp in &all_spellings {
        let pos = letter_positions(sp);
        let k = pos.len();
        if k == 0 {
            continue;
        }
        if k <= lim.flip_all_k {
            for mask in 1..(1u64 << k) {
                push(&mut out, flip_mask(sp, &pos, mask), 1);
            }
        } else {
            // all single flips, the full flip, then samples
            for j in 0..k.min(64) {
                push(&mut out, flip_mask(sp, &pos, 1u64 << j), 1);
            }
            push(&mut out, flip_mask(sp, &pos, u64::MAX), 1);
            for _ in 0..lim.flip_samples {
                push(&mut out, flip_mask(sp, &pos, rng.next()), 1);
            }
        }
    }
    // I3: one-edit neighbours
    for sp in &all_spellings {
        let chars: Vec<char> = sp.chars().collect();
        let n = chars.len();
        let mut cands: Vec<String> = Vec::new();
        for i in 0..n {
            // delete
            let mut c = chars.clone();
            c.remove(i);
            cands.push(c.into_iter().collect());
            // substitute
            let mut c = chars.clone();
            c[i] = pool[rng.below(pool.len())];
            cands.push(c.into_iter().collect());
            // transpose
            if i + 1 < n {
                let mut c = chars.clone();
                c.swap(i, i + 1);
                cands.push(c.into_iter().collect());
            }
            // duplicate
            let mut c = chars.clone();
            c.insert(i, chars[i]);
            cands.push(c.into_iter().collect());
        }
        for i in 0..=n {
            let mut c = chars.clone();
            c.insert(i, pool[rng.below(pool.len())]);
            cands.push(c.into_iter().collect());
        }
        // byte-level truncations (at char boundaries) and prefixes/suffixes
        for i in 1..n {
            cands.push(chars[..i].iter().collect());
            cands.push(chars[i..].iter().collect());
        }
        if cands.len() > lim.edits_per_spelling {
            // deterministic thinning
            let step = cands.len() as f64 / lim.edits_per_spelling as f64;
            let mut kept = Vec::new();
            let mut x = 0.0;
            while (x as usize) < cands.len() {
                kept.push(cands[x as usize].clone());
                x += step;
            }
            cands = kept;
        }
        for c in cands {
            push(&mut out, c, 2);
        }
    }
    // I4: padded
    for sp in &all_spellings {
        for (a, b) in [(" ", ""), ("", " "), (" ", " "), ("", "\n"), ("\t", ""), ("\0", ""), ("", "\0"), ("", "\r\n"), ("\u{feff}", ""), ("", "\u{200b}")] {
            push(&mut out, format!("{}{}{}", a, sp, b), 3);
        }
    }
    // I9: look-alikes and non-ASCII case pairs
    for sp in &all_spellings {
        let chars: Vec<char> = sp.chars().collect();
        for (i, ch) in chars.iter().enumerate() {
            for la in lookalikes(*ch) {
                let mut s = String::new();
                for (j, c2) in chars.iter().enumerate() {
                    if i == j {
                        s.push_str(la);
                    } else {
                        s.push(*c2);
                    }
                }
                push(&mut out, s, 7);
            }
            if !ch.is_ascii() {
                for alt in [ch.to_uppercase().collect::<String>(), ch.to_lowercase().collect::<String>()] {
                    if alt.chars().count() >= 1 && alt != ch.to_string() {
                        let mut s = String::new();
                        for (j, c2) in chars.iter().enumerate() {
                            if i == j {
                                s.push_str(&alt);
                            } else {
                                s.push(*c2);
                            }
                        }
                        push(&mut out, s, 7);
                    }
                }
            }
        }
        // whole-string Unicode case mappings (differ from ASCII folding on non-ASCII letters)
        push(&mut out, sp.to_uppercase(), 7);
        push(&mut out, sp.to_lowercase(), 7);
        if sp.contains("ss") {
            push(&mut out, sp.replacen("ss", "ß", 1), 7);
        }
        if sp.contains("SS") {
            push(&mut out, sp.replacen("SS", "ẞ", 1), 7);
        }
        if sp.contains('ß') {
            push(&mut out, sp.replacen('ß', "ss", 1), 7);
            push(&mut out, sp.replacen('ß', "SS", 1), 7);
        }
    }
    // I10: random strings over the pool
    for _ in 0..lim.random {
        let len = rng.below(10);
        let s: String = (0..len).map(|_| pool[rng.below(pool.len())]).collect();
        push(&mut out, s, 8);
    }
    // I11: long strings
    for sp in all_spellings.iter().take(3) {
        if !sp.is_empty() {
            let mut s = String::new();
            while s.len() < 4096 {
                s.push_str(sp);
            }
            push(&mut out, s, 9);
        }
        let mut s = sp.to_string();
        s.push_str(&"a".repeat(4096));
        push(&mut out, s, 9);
    }
    out
}
