//! Lock-step monitor for derived iterators: the implementation under test is driven through
//! call histories side by side with `std::vec::IntoIter` over the model list.
use crate::{hash_of, jobj, jstr, panic_msg, Mon, Rng};
use std::collections::HashSet;
use std::fmt::Debug;
use std::iter::FusedIterator;
use std::panic::{catch_unwind, AssertUnwindSafe};

#[derive(Clone, Copy, Debug, PartialEq, Eq, Hash)]
pub enum Op {
    Next,
    NextBack,
    Nth(usize),
    NthBack(usize),
    Clone,
}

fn op_str(o: &Op) -> String {
    match o {
        Op::Next => "next".into(),
        Op::NextBack => "next_back".into(),
        Op::Nth(k) => format!("nth({})", kstr(*k)),
        Op::NthBack(k) => format!("nth_back({})", kstr(*k)),
        Op::Clone => "clone".into(),
    }
}
fn kstr(k: usize) -> String {
    if k == usize::MAX {
        "usize::MAX".into()
    } else if k == usize::MAX - 1 {
        "usize::MAX-1".into()
    } else if k == 1usize << 63 {
        "1<<63".into()
    } else if k == 1usize << 32 {
        "1<<32".into()
    } else {
        k.to_string()
    }
}
fn hist_str(h: &[Op]) -> String {
    let v: Vec<String> = h.iter().map(op_str).collect();
    format!("[{}]", v.join(", "))
}

pub struct IterStats {
    pub histories: u64,
    pub calls: u64,
    pub states: HashSet<(usize, usize)>,
    pub stop: bool,
}

type Model = std::vec::IntoIter<usize>;

fn model_state(md: &Model, n: usize) -> (usize, usize) {
    let s = md.as_slice();
    match s.first() {
        Some(f) => (*f, s.len()),
        None => (n, 0),
    }
}

/// Apply one operation to both sides and compare.  Returns false if the branch must stop
/// (violation found; the implementation state can no longer be trusted).
fn step<I, E>(m: &mut Mon, it: &mut I, md: &mut Model, op: Op, make: &dyn Fn(usize) -> E, hist: &[Op], st: &mut IterStats, profile: &str) -> bool
where
    I: Iterator<Item = E> + DoubleEndedIterator + ExactSizeIterator + Clone,
    E: Debug + PartialEq,
{
    st.calls += 1;
    let want: Option<usize> = match op {
        Op::Next => md.next(),
        Op::NextBack => md.next_back(),
        Op::Nth(k) => md.nth(k),
        Op::NthBack(k) => md.nth_back(k),
        Op::Clone => {
            *md = md.clone();
            None
        }
    };
    let got = catch_unwind(AssertUnwindSafe(|| match op {
        Op::Next => it.next(),
        Op::NextBack => it.next_back(),
        Op::Nth(k) => it.nth(k),
        Op::NthBack(k) => it.nth_back(k),
        Op::Clone => {
            let c = it.clone();
            *it = c;
            None
        }
    }));
    let nontrivial = hist.len() >= 2;
    m.event_fast(if nontrivial { Some(hash_of(&(hist, profile))) } else { None });
    let got = match got {
        Ok(g) => g,
        Err(e) => {
            m.viol(
                &format!("iter:panic:{}", opkind(&op)),
                jobj(&[("history", jstr(&hist_str(hist))), ("profile", jstr(profile)), ("expected", jstr("no panic")), ("observed", jstr(&format!("panic: {}", panic_msg(&e))))]),
            );
            st.stop = true;
            return false;
        }
    };
    let want_e = want.map(|i| make(i));
    if got != want_e {
        m.viol(
            &format!("iter:item:{}", opkind(&op)),
            jobj(&[("history", jstr(&hist_str(hist))), ("profile", jstr(profile)), ("expected", jstr(&format!("{:?}", want_e))), ("observed", jstr(&format!("{:?}", got)))]),
        );
        return false;
    }
    // exact size after every call
    let len = catch_unwind(AssertUnwindSafe(|| (it.len(), it.size_hint())));
    st.calls += 2;
    match len {
        Ok((l, sh)) => {
            let wl = md.len();
            if l != wl || sh != (wl, Some(wl)) {
                m.viol(
                    &format!("iter:len:{}", opkind(&op)),
                    jobj(&[("history", jstr(&hist_str(hist))), ("profile", jstr(profile)), ("expected", jstr(&format!("len {} size_hint ({}, Some({}))", wl, wl, wl))), ("observed", jstr(&format!("len {} size_hint {:?}", l, sh)))]),
                );
                return false;
            }
        }
        Err(e) => {
            m.viol(
                "iter:panic:len",
                jobj(&[("history", jstr(&hist_str(hist))), ("profile", jstr(profile)), ("expected", jstr("no panic")), ("observed", jstr(&format!("panic in len/size_hint: {}", panic_msg(&e))))]),
            );
            return false;
        }
    }
    if m.want_sample() {
        m.sample(jobj(&[("history", jstr(&hist_str(hist))), ("profile", jstr(profile)), ("returned", jstr(&format!("{:?}", got))), ("len_after", md.len().to_string())]));
    }
    true
}

fn opkind(o: &Op) -> &'static str {
    match o {
        Op::Next => "next",
        Op::NextBack => "next_back",
        Op::Nth(_) => "nth",
        Op::NthBack(_) => "nth_back",
        Op::Clone => "clone",
    }
}

fn fused_check<I, E>(m: &mut Mon, it: &I, md: &Model, make: &dyn Fn(usize) -> E, hist: &mut Vec<Op>, st: &mut IterStats, profile: &str)
where
    I: Iterator<Item = E> + DoubleEndedIterator + ExactSizeIterator + Clone,
    E: Debug + PartialEq,
{
    if md.len() != 0 {
        return;
    }
    let mut it = it.clone();
    let mut md = md.clone();
    let base = hist.len();
    for op in [Op::Next, Op::NextBack, Op::Nth(1), Op::Next, Op::NthBack(0), Op::NextBack] {
        hist.push(op);
        let ok = step(m, &mut it, &mut md, op, make, hist, st, profile);
        if !ok {
            break;
        }
    }
    hist.truncate(base);
}

/// In the state reached by `hist`, the consuming methods (which an implementation may override: last, count, fold, rfold,
/// collect, rev) must agree with the remaining items of the model.  Each runs on its own clone.
fn consume_check<I, E>(m: &mut Mon, it: &I, md: &Model, make: &dyn Fn(usize) -> E, hist: &[Op], st: &mut IterStats, profile: &str)
where
    I: Iterator<Item = E> + DoubleEndedIterator + ExactSizeIterator + Clone,
    E: Debug + PartialEq,
{
    let rest: Vec<usize> = md.clone().collect();
    let want_all: Vec<E> = rest.iter().map(|i| make(*i)).collect();
    let want_rev: Vec<E> = rest.iter().rev().map(|i| make(*i)).collect();
    let want_last: Option<E> = rest.last().map(|i| make(*i));
    let mut report = |m: &mut Mon, what: &str, want: String, got: Result<String, String>| {
        st.calls += 1;
        m.event_fast(Some(hash_of(&(hist, profile, what))));
        let got = match got {
            Ok(g) => g,
            Err(p) => format!("panic: {}", p),
        };
        if got != want {
            m.viol(
                &format!("iter:consume:{}", what),
                jobj(&[("history", jstr(&format!("{} then {}()", hist_str(hist), what))), ("profile", jstr(profile)), ("expected", jstr(&want)), ("observed", jstr(&got))]),
            );
        }
    };
    let g = catch_unwind(AssertUnwindSafe(|| format!("{:?}", it.clone().last()))).map_err(|e| panic_msg(&e));
    report(m, "last", format!("{:?}", want_last), g);
    let g = catch_unwind(AssertUnwindSafe(|| format!("{:?}", it.clone().count()))).map_err(|e| panic_msg(&e));
    report(m, "count", format!("{:?}", rest.len()), g);
    let g = catch_unwind(AssertUnwindSafe(|| format!("{:?}", it.clone().collect::<Vec<E>>()))).map_err(|e| panic_msg(&e));
    report(m, "collect", format!("{:?}", want_all), g);
    let g = catch_unwind(AssertUnwindSafe(|| format!("{:?}", it.clone().rev().collect::<Vec<E>>()))).map_err(|e| panic_msg(&e));
    report(m, "rev().collect", format!("{:?}", want_rev), g);
    let g = catch_unwind(AssertUnwindSafe(|| format!("{:?}", it.clone().fold(Vec::new(), |mut a, x| { a.push(x); a })))).map_err(|e| panic_msg(&e));
    report(m, "fold", format!("{:?}", want_all), g);
    let g = catch_unwind(AssertUnwindSafe(|| format!("{:?}", it.clone().rfold(Vec::new(), |mut a, x| { a.push(x); a })))).map_err(|e| panic_msg(&e));
    report(m, "rfold", format!("{:?}", want_rev), g);
}

fn dfs<I, E>(m: &mut Mon, it: &I, md: &Model, n: usize, make: &dyn Fn(usize) -> E, ops: &[Op], depth: usize, hist: &mut Vec<Op>, st: &mut IterStats, profile: &str)
where
    I: Iterator<Item = E> + DoubleEndedIterator + ExactSizeIterator + Clone,
    E: Debug + PartialEq,
{
    st.states.insert(model_state(md, n));
    if depth == 0 {
        st.histories += 1;
        fused_check(m, it, md, make, hist, st, profile);
        consume_check(m, it, md, make, hist, st, profile);
        return;
    }
    for &op in ops {
        if st.stop {
            return;
        }
        // branching through clone() also checks that clones advance independently
        let mut it2 = it.clone();
        let mut md2 = md.clone();
        hist.push(op);
        if step(m, &mut it2, &mut md2, op, make, hist, st, profile) {
            dfs(m, &it2, &md2, n, make, ops, depth - 1, hist, st, profile);
        }
        hist.pop();
    }
}

pub fn alphabet(n: usize, with_huge: bool) -> Vec<Op> {
    let mut ops = vec![Op::Next, Op::NextBack, Op::Clone];
    let mut ks: Vec<usize> = (0..=n + 1).collect();
    if with_huge {
        // values that survive neither a cast to a narrower/signed type nor "+ 1" without care
        ks.push(1usize << 32);
        ks.push(1usize << 63);
        ks.push(usize::MAX - 1);
        ks.push(usize::MAX);
    }
    for &k in &ks {
        ops.push(Op::Nth(k));
    }
    for &k in &ks {
        ops.push(Op::NthBack(k));
    }
    ops
}

/// Exhaustive exploration of all histories up to `depth` by iterative deepening (so the first
/// witness is a shortest one), then seeded random walks.
pub fn explore<I, E>(m: &mut Mon, mk: &dyn Fn() -> I, n: usize, make: &dyn Fn(usize) -> E, depth: usize, walks: usize, profile: &str)
where
    I: Iterator<Item = E> + DoubleEndedIterator + ExactSizeIterator + Clone + FusedIterator,
    E: Debug + PartialEq,
{
    let ops = alphabet(n, true);
    let mut st = IterStats { histories: 0, calls: 0, states: HashSet::new(), stop: false };
    let model: Vec<usize> = (0..n).collect();
    for d in 1..=depth {
        let before = m.events;
        let mut hist = Vec::new();
        let it = match catch_unwind(AssertUnwindSafe(|| mk())) {
            Ok(i) => i,
            Err(e) => {
                m.viol("iter:panic:iter()", jobj(&[("observed", jstr(&panic_msg(&e)))]));
                return;
            }
        };
        st.stop = false;
        let viol_before = m_viol(m);
        dfs(m, &it, &model.clone().into_iter(), n, make, &ops, d, &mut hist, &mut st, profile);
        let _ = before;
        if m_viol(m) > viol_before {
            break; // shortest witnesses found at this depth
        }
    }
    // random walks
    let mut rng: Rng = m.rng(&format!("walk-{}", profile));
    for _ in 0..walks {
        let mut it = mk();
        let mut md: Model = model.clone().into_iter();
        let mut hist = Vec::new();
        let len = 8 + rng.below(56);
        for _ in 0..len {
            let op = if rng.chance(1, 40) { ops[rng.below(ops.len())] } else {
                // bias towards small steps so that walks are long
                match rng.below(6) {
                    0 | 1 => Op::Next,
                    2 | 3 => Op::NextBack,
                    4 => Op::Nth(rng.below(2)),
                    _ => if rng.chance(1, 3) { Op::Clone } else { Op::NthBack(rng.below(2)) },
                }
            };
            hist.push(op);
            st.states.insert(model_state(&md, n));
            if !step(m, &mut it, &mut md, op, make, &hist, &mut st, profile) {
                break;
            }
        }
        st.histories += 1;
        fused_check(m, &it, &md, make, &mut hist, &mut st, profile);
        consume_check(m, &it, &md, make, &hist, &mut st, profile);
    }
    m.count_n(&format!("iter/{}/histories", profile), st.histories);
    m.count_n(&format!("iter/{}/calls", profile), st.calls);
    m.count_n(&format!("iter/{}/model_states_visited", profile), st.states.len() as u64);
    m.count_n(&format!("iter/{}/model_states_reachable", profile), (n * (n + 1) / 2 + 1) as u64);
}

fn m_viol(m: &Mon) -> u64 {
    m.viol_count()
}

/// Adapter probes built on nth / next_back: skip, step_by, rev, take, count, last, collect.
pub fn adapters<I, E>(m: &mut Mon, mk: &dyn Fn() -> I, n: usize, make: &dyn Fn(usize) -> E, profile: &str)
where
    I: Iterator<Item = E> + DoubleEndedIterator + ExactSizeIterator + Clone + FusedIterator,
    E: Debug + PartialEq,
{
    let model: Vec<usize> = (0..n).collect();
    let to_e = |v: Vec<usize>| -> Vec<E> { v.into_iter().map(|i| make(i)).collect() };
    let mut ks: Vec<usize> = (0..=n + 2).collect();
    ks.push(1usize << 32);
    ks.push(1usize << 63);
    ks.push((usize::MAX >> 1) + 1);
    ks.push(usize::MAX - 1);
    ks.push(usize::MAX);
    macro_rules! probe {
        ($name:expr, $imp:expr, $mdl:expr) => {{
            let name: String = $name;
            let got = catch_unwind(AssertUnwindSafe(|| $imp));
            let want = $mdl;
            m.event("iter-adapter", Some(hash_of(&(&name, profile))));
            match got {
                Ok(g) => {
                    if g != want {
                        m.viol(&format!("iter:adapter:{}", name.split('(').next().unwrap()), jobj(&[("history", jstr(&name)), ("profile", jstr(profile)), ("expected", jstr(&format!("{:?}", want))), ("observed", jstr(&format!("{:?}", g)))]));
                    }
                }
                Err(e) => {
                    m.viol(&format!("iter:adapter-panic:{}", name.split('(').next().unwrap()), jobj(&[("history", jstr(&name)), ("profile", jstr(profile)), ("expected", jstr(&format!("{:?}", want))), ("observed", jstr(&format!("panic: {}", panic_msg(&e))))]));
                }
            }
        }};
    }
    probe!("collect()".to_string(), mk().collect::<Vec<E>>(), to_e(model.clone()));
    probe!("rev().collect()".to_string(), mk().rev().collect::<Vec<E>>(), to_e(model.iter().rev().cloned().collect()));
    probe!("count()".to_string(), vec![mk().count()], vec![n]);
    probe!("last()".to_string(), mk().last().into_iter().collect::<Vec<E>>(), to_e(model.last().cloned().into_iter().collect()));
    probe!("len()".to_string(), vec![mk().len()], vec![n]);
    for &k in &ks {
        probe!(format!("skip({}).collect()", kstr(k)), mk().skip(k).collect::<Vec<E>>(), to_e(model.iter().cloned().skip(k).collect()));
        probe!(format!("skip({}).len()", kstr(k)), vec![mk().skip(k).len()], vec![model.iter().skip(k).len()]);
        probe!(format!("take({}).collect()", kstr(k)), mk().take(k).collect::<Vec<E>>(), to_e(model.iter().cloned().take(k).collect()));
        probe!(format!("rev().skip({}).collect()", kstr(k)), mk().rev().skip(k).collect::<Vec<E>>(), to_e(model.iter().rev().cloned().skip(k).collect()));
        probe!(format!("skip({}).rev().collect()", kstr(k)), mk().skip(k).rev().collect::<Vec<E>>(), to_e(model.iter().cloned().skip(k).rev().collect()));
        if k > 0 {
            probe!(format!("step_by({}).collect()", kstr(k)), mk().step_by(k).collect::<Vec<E>>(), to_e(model.iter().cloned().step_by(k).collect()));
            probe!(format!("skip(1).step_by({}).collect()", kstr(k)), mk().skip(1).step_by(k).collect::<Vec<E>>(), to_e(model.iter().cloned().skip(1).step_by(k).collect()));
            probe!(format!("step_by({}).rev().collect()", kstr(k)), mk().step_by(k).rev().collect::<Vec<E>>(), to_e(model.iter().cloned().step_by(k).rev().collect()));
        }
        for &j in &[0usize, 1, usize::MAX] {
            probe!(format!("skip({}).skip({}).collect()", kstr(k), kstr(j)), mk().skip(k).skip(j).collect::<Vec<E>>(), to_e(model.iter().cloned().skip(k).skip(j).collect()));
        }
    }
    // cycle / chain / zip
    probe!("cycle().take(2n+1)".to_string(), mk().cycle().take(2 * n + 1).collect::<Vec<E>>(), to_e(model.iter().cloned().cycle().take(if n == 0 { 0 } else { 2 * n + 1 }).collect()));
    probe!("chain(iter()).count()".to_string(), vec![mk().chain(mk()).count()], vec![2 * n]);
}

/// C04/C08: the iterator yields exactly the model list, the reverse is the reversed list,
/// and the item count equals `count_const` (EnumCount::COUNT) and len().
pub fn check_list<I, E>(m: &mut Mon, mk: &dyn Fn() -> I, n: usize, make: &dyn Fn(usize) -> E, count_const: usize, nontrivial: bool)
where
    I: Iterator<Item = E> + DoubleEndedIterator + ExactSizeIterator + Clone,
    E: Debug + PartialEq,
{
    let want: Vec<E> = (0..n).map(|i| make(i)).collect();
    let wrev: Vec<E> = (0..n).rev().map(|i| make(i)).collect();
    let key = |api: &str| if nontrivial { Some(hash_of(&api)) } else { None };
    let mut chk = |m: &mut Mon, api: &str, got: Result<Vec<E>, String>, want: &Vec<E>| {
        m.event("list", key(api));
        match got {
            Ok(g) => {
                if &g != want {
                    m.viol(&format!("list:{}", api), jobj(&[("api", jstr(api)), ("expected", jstr(&format!("{:?}", want))), ("observed", jstr(&format!("{:?}", g)))]));
                } else if m.want_sample() {
                    m.sample(jobj(&[("api", jstr(api)), ("observed", jstr(&format!("{:?}", g)))]));
                }
            }
            Err(e) => m.viol(&format!("list:{}:panic", api), jobj(&[("api", jstr(api)), ("expected", jstr(&format!("{:?}", want))), ("observed", jstr(&format!("panic: {}", e)))])),
        }
    };
    let g = catch_unwind(AssertUnwindSafe(|| mk().collect::<Vec<E>>())).map_err(|e| panic_msg(&e));
    chk(m, "iter().collect()", g, &want);
    let g = catch_unwind(AssertUnwindSafe(|| mk().rev().collect::<Vec<E>>())).map_err(|e| panic_msg(&e));
    chk(m, "iter().rev().collect()", g, &wrev);
    // from the back with next_back explicitly
    let g = catch_unwind(AssertUnwindSafe(|| {
        let mut it = mk();
        let mut v = Vec::new();
        while let Some(x) = it.next_back() {
            v.push(x);
            if v.len() > n + 4 {
                break;
            }
        }
        v
    }))
    .map_err(|e| panic_msg(&e));
    chk(m, "next_back() loop", g, &wrev);
    let mut num = |m: &mut Mon, api: &str, got: usize, want: usize| {
        m.event("list", key(api));
        if got != want {
            m.viol(&format!("list:{}", api), jobj(&[("api", jstr(api)), ("expected", want.to_string()), ("observed", got.to_string())]));
        }
    };
    num(m, "COUNT", count_const, n);
    if let Ok(c) = catch_unwind(AssertUnwindSafe(|| mk().count())) {
        num(m, "iter().count()", c, n);
        num(m, "COUNT == iter().count()", count_const, c);
    }
    if let Ok(c) = catch_unwind(AssertUnwindSafe(|| mk().len())) {
        num(m, "iter().len()", c, n);
    }
}
