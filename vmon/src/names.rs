//! Monitors for string-producing derives: canonical names, tables, print->parse round trips.
use crate::{hash_of, jobj, jstr, panic_msg, Mon};
use std::fmt::Debug;
use std::panic::{catch_unwind, AssertUnwindSafe};

pub type Printer<'a, E> = (&'a str, &'a dyn Fn(&E) -> String);

/// Every api applied to every sample value must return expected[variant index].
pub fn check_names<E: Debug>(m: &mut Mon, class: &str, samples: &[(usize, E)], apis: &[Printer<E>], expected: &[&str], nontrivial: &[bool]) {
    for (k, (idx, val)) in samples.iter().enumerate() {
        for (api, f) in apis {
            let subject = format!("{:?}", val);
            let got = catch_unwind(AssertUnwindSafe(|| f(val)));
            let key = if nontrivial[*idx] { Some(hash_of(&(api, idx, k))) } else { None };
            m.event(class, key);
            match got {
                Ok(g) => {
                    if g != expected[*idx] {
                        m.viol(&format!("{}:{}", class, api), jobj(&[("api", jstr(api)), ("subject", jstr(&subject)), ("expected", jstr(expected[*idx])), ("observed", jstr(&g))]));
                    } else if m.want_sample() {
                        m.sample(jobj(&[("api", jstr(api)), ("subject", jstr(&subject)), ("observed", jstr(&g))]));
                    }
                }
                Err(e) => m.viol(&format!("{}:{}:panic", class, api), jobj(&[("api", jstr(api)), ("subject", jstr(&subject)), ("expected", jstr(expected[*idx])), ("observed", jstr(&format!("panic: {}", panic_msg(&e))))])),
            }
        }
    }
}

/// A constant table (VARIANTS, ...) must equal the model table element by element.
pub fn check_table(m: &mut Mon, class: &str, api: &str, observed: &[&str], expected: &[&str], nontrivial: bool) {
    m.event(class, if nontrivial { Some(hash_of(&(api, "len"))) } else { None });
    if observed.len() != expected.len() {
        m.viol(&format!("{}:{}:len", class, api), jobj(&[("api", jstr(api)), ("expected", jstr(&format!("{:?}", expected))), ("observed", jstr(&format!("{:?}", observed)))]));
        return;
    }
    for i in 0..expected.len() {
        m.event(class, if nontrivial { Some(hash_of(&(api, i))) } else { None });
        if observed[i] != expected[i] {
            m.viol(&format!("{}:{}", class, api), jobj(&[("api", jstr(&format!("{}[{}]", api, i))), ("expected", jstr(expected[i])), ("observed", jstr(observed[i])), ("table", jstr(&format!("{:?}", observed)))]));
        }
    }
    if m.want_sample() {
        m.sample(jobj(&[("api", jstr(api)), ("observed", jstr(&format!("{:?}", observed)))]));
    }
}

/// Set comparison (order-insensitive, duplicates ignored).
pub fn check_set(m: &mut Mon, class: &str, api: &str, subject: &str, observed: &[&str], expected: &[&str], nontrivial: bool) {
    let mut o: Vec<&str> = observed.to_vec();
    let mut e: Vec<&str> = expected.to_vec();
    o.sort();
    o.dedup();
    e.sort();
    e.dedup();
    m.event(class, if nontrivial { Some(hash_of(&(api, subject))) } else { None });
    if o != e {
        m.viol(&format!("{}:{}", class, api), jobj(&[("api", jstr(api)), ("subject", jstr(subject)), ("expected", jstr(&format!("{:?}", e))), ("observed", jstr(&format!("{:?}", o)))]));
    } else if m.want_sample() {
        m.sample(jobj(&[("api", jstr(api)), ("subject", jstr(subject)), ("observed", jstr(&format!("{:?}", o)))]));
    }
}

/// print -> parse must return the variant with defaulted payload.
pub fn roundtrip<E: Debug + PartialEq>(
    m: &mut Mon,
    samples: &[(usize, E)],
    make: &dyn Fn(usize) -> E,
    printers: &[Printer<E>],
    parse: &dyn Fn(&str) -> Result<E, String>,
    serializations: Option<&dyn Fn(&E) -> Vec<String>>,
    nontrivial: &[bool],
) {
    for (k, (idx, val)) in samples.iter().enumerate() {
        let want = make(*idx);
        let subject = format!("{:?}", val);
        let mut strings: Vec<(String, String)> = Vec::new();
        for (api, f) in printers {
            match catch_unwind(AssertUnwindSafe(|| f(val))) {
                Ok(s) => strings.push((api.to_string(), s)),
                Err(e) => {
                    m.event("roundtrip", None);
                    m.viol(&format!("roundtrip:{}:panic", api), jobj(&[("api", jstr(api)), ("subject", jstr(&subject)), ("expected", jstr("a string")), ("observed", jstr(&format!("panic: {}", panic_msg(&e))))]));
                }
            }
        }
        if let Some(g) = serializations {
            for s in g(val) {
                strings.push(("get_serializations".to_string(), s));
            }
        }
        for (api, s) in strings {
            let key = if nontrivial[*idx] { Some(hash_of(&(&api, idx, k, &s))) } else { None };
            m.event("roundtrip", key);
            let got = catch_unwind(AssertUnwindSafe(|| parse(&s)));
            let ok = match &got {
                Ok(Ok(v)) => *v == want,
                _ => false,
            };
            if !ok {
                let obs = match got {
                    Ok(Ok(v)) => format!("Ok({:?})", v),
                    Ok(Err(e)) => format!("Err({})", e),
                    Err(e) => format!("panic: {}", panic_msg(&e)),
                };
                m.viol(&format!("roundtrip:{}", api), jobj(&[("api", jstr(&format!("from_str({}(v))", api))), ("subject", jstr(&subject)), ("printed", jstr(&s)), ("expected", jstr(&format!("Ok({:?})", want))), ("observed", jstr(&obs))]));
            } else if m.want_sample() {
                m.sample(jobj(&[("api", jstr(&format!("from_str({}(v))", api))), ("subject", jstr(&subject)), ("printed", jstr(&s)), ("observed", jstr(&format!("Ok({:?})", want)))]));
            }
        }
    }
}
